#!/bin/bash
# run every claimed check (tier $1, default quick) and summarise
tier=${1:-quick}
cd /verif
for id in $(python3 -c "import json;print(' '.join(c['property_id'] for c in json.load(open('MANIFEST.json'))['checks']))"); do
  s=$(date +%s); out=$(./check $id --tier $tier 2>&1); rc=$?; e=$(( $(date +%s) - s ))
  echo "$id rc=$rc ${e}s | $(echo "$out" | grep "^$id \[" | tail -1)"
  [ $rc -ne 0 ] && echo "$out" | grep -v "^   " | head -5
done
