#!/usr/bin/env python3
"""usage: store_round.py <outdir> <round> <results file> <first-run results file>
Copies every confirmed + detected change of a seeding round into /verif/seeded/<prop>-r<round>-<m>/ with a meta.json."""
import json, os, re, shutil, sys
out, rnd, resf, firstf = sys.argv[1], int(sys.argv[2]), sys.argv[3], sys.argv[4]
def load(f):
    r = {}
    if os.path.exists(f):
        for l in open(f):
            p = l.rstrip("\n").split("|")
            if len(p) >= 4:
                r[p[0]] = (p[1], "|".join(p[2:-1]), p[-1].strip())
    return r
res, first = load(resf), load(firstf)
STRENGTH = json.load(open(os.path.join(os.path.dirname(__file__), "round%d_strengthening.json" % rnd))) if os.path.exists(os.path.join(os.path.dirname(__file__), "round%d_strengthening.json" % rnd)) else {}
for prop in sorted(os.listdir(out)):
    pd = os.path.join(out, prop)
    if not os.path.isdir(pd):
        continue
    for m in sorted(os.listdir(pd)):
        d = os.path.join(pd, m)
        if not os.path.isfile(os.path.join(d, "patch.diff")):
            continue
        key = "%s-%s" % (prop, m)
        conf, vout, rc = res.get(key, ("no", "", "-1"))
        if conf != "yes":
            print("skip (not confirmed)", key)
            continue
        sid = "%s-r%d-%s" % (prop, rnd, m)
        dst = os.path.join("/verif/seeded", sid)
        os.makedirs(dst, exist_ok=True)
        for f in ("patch.diff", "demo.cpp", "notes.md", "demo_flags", "demo_run"):
            if os.path.exists(os.path.join(d, f)):
                shutil.copy(os.path.join(d, f), os.path.join(dst, f))
        notes = open(os.path.join(d, "notes.md")).read() if os.path.exists(os.path.join(d, "notes.md")) else ""
        mm = re.search(r"##\s*What it needs[^\n]*\n(.*?)(\n## |\Z)", notes, re.S)
        needs = re.sub(r"\s+", " ", mm.group(1)).strip()[:600] if mm else ""
        title = notes.split("\n", 1)[0].lstrip("# ").strip()
        f_rc = first.get(key, (None, None, None))[2]
        meta = {
            "id": sid, "property": prop, "round": rnd, "title": title, "needs_to_manifest": needs,
            "origin": "independent sub-agent, round %d (given the property text, its own worktree of /repo HEAD and the list of earlier sites to avoid)" % rnd,
            "confirmed": {"how": "tools/verify_mutant.sh in a scratch worktree of /repo HEAD", "result": "CONFIRMED (patch applies, 71/71 tests with it, demo 0 without / non-zero with)"},
            "first_run_against_checks": ("check exit %s" % f_rc) if f_rc is not None else None,
            "strengthening": STRENGTH.get(key),
            "detected_by": {"check": "./check %s --tier quick" % prop,
                            "result": "exit 1 with VIOLATION line(s) (tools/try_mutant.sh)" if rc == "1" else "exit %s" % rc},
        }
        json.dump(meta, open(os.path.join(dst, "meta.json"), "w"), indent=1)
        print("stored", sid, "rc", rc)
