#!/bin/bash
# usage: verify_mutant.sh <mutant dir with patch.diff + demo.cpp> [extra g++ flags]
# Confirms in a scratch worktree of /repo HEAD: patch applies, suite passes 71/71 with it,
# demo exits 0 without the patch and non-zero with it. Removes the worktree afterwards.
set -u
d=$(readlink -f "$1"); shift
wt=/tmp/vm_$$
git -C /repo worktree add -f $wt HEAD >/dev/null 2>&1 || { echo "worktree failed"; exit 9; }
cleanup() { git -C /repo worktree remove --force $wt >/dev/null 2>&1; rm -rf $wt; }
trap cleanup EXIT
cd $wt
FL="-std=c++17 -I $wt/code/include -lpthread -ldl $*"
[ -f "$d/demo_flags" ] && FL="$FL $(cat "$d/demo_flags")"
# a demonstration that needs more than "compile one file and run it" (several shared objects, arguments) brings a
# demo_run script: bash demo_run <include dir> <demo.cpp> <scratch dir>, exit status = the demonstration's
if [ -f "$d/demo_run" ]; then
  mkdir -p $wt/_d1 $wt/_d2
  timeout 300 bash "$d/demo_run" $wt/code/include "$d/demo.cpp" $wt/_d1 >/dev/null 2>&1; rc_clean=$?
  git apply "$d/patch.diff" || { echo "PATCH DOES NOT APPLY"; exit 7; }
  timeout 300 bash "$d/demo_run" $wt/code/include "$d/demo.cpp" $wt/_d2 >/dev/null 2>&1; rc_mut=$?
else
g++ $FL "$d/demo.cpp" -o $wt/demo_clean -lpthread -ldl 2>$wt/cerr || { echo "DEMO DOES NOT COMPILE (clean)"; tail -5 $wt/cerr; exit 8; }
timeout 120 $wt/demo_clean >/dev/null 2>&1; rc_clean=$?
git apply "$d/patch.diff" || { echo "PATCH DOES NOT APPLY"; exit 7; }
g++ $FL "$d/demo.cpp" -o $wt/demo_mut -lpthread -ldl 2>$wt/cerr || { echo "DEMO DOES NOT COMPILE (mutated)"; tail -5 $wt/cerr; exit 6; }
timeout 120 $wt/demo_mut >/dev/null 2>&1; rc_mut=$?
fi
cmake -G Ninja -B _build >/dev/null 2>&1 && cmake --build _build >/dev/null 2>&1 || { echo "TEST BUILD FAILS WITH PATCH"; exit 5; }
tests=$(ctest --test-dir _build -j8 2>&1 | grep "tests passed" )
echo "demo clean rc=$rc_clean mutated rc=$rc_mut | $tests"
if [ $rc_clean -eq 0 ] && [ $rc_mut -ne 0 ] && echo "$tests" | grep -q "100% tests passed, 0 tests failed out of 71"; then echo CONFIRMED; exit 0; else echo NOT-CONFIRMED; exit 1; fi
