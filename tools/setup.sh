#!/bin/bash
# Offline setup: nothing to build (every check regenerates its encoding); only verify the toolchain.
set -e
command -v clang++-14 >/dev/null
python3-vt -c "import z3; assert z3.get_version() >= (4,8,12,0)"
test -d "${VERIF_REPO:-/repo}/code/include"
echo "toolchain ok"
