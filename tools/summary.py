#!/usr/bin/env python3
"""print a markdown table of what the last run of every check covered (from evidence/*.json)"""
import glob, json, os
V = os.path.dirname(os.path.dirname(os.path.abspath(__file__)))
rows = []
for f in sorted(glob.glob(os.path.join(V, "evidence", "C*.json"))):
    e = json.load(open(f)); c = e["coverage"]
    rows.append((e["property_id"], e["tier"], c.get("kernels_checked", 0), c.get("kernel_tus", 0), c.get("states", 0), c.get("obligations", 0), c.get("discharged", 0),
                 c.get("solver_queries", 0), c.get("solver_s", 0), c.get("traces_validated_against_impl", 0), c.get("n_rlbox_functions_encoded", 0), e["wall_s"]))
print("| property | tier | checks | TUs | paths | obligations | discharged | queries | solver s | vectors validated | rlbox functions | wall s |")
print("|---|---|---|---|---|---|---|---|---|---|---|---|")
for r in rows:
    print("| " + " | ".join(str(x) for x in r) + " |")
