#!/bin/bash
# usage: revalidate_seeded.sh <results file> [ids...]
# Re-bases every stored seeded change onto the current /repo HEAD (fuzzy apply in a scratch worktree) and runs the quick
# check of its property against it. A change whose patch no longer applies is reported REBASE-FAILED (re-base by hand).
res=$1; shift
cd /verif
for d in seeded/*/; do
  id=$(basename $d); prop=$(python3 -c "import json;print(json.load(open('$d/meta.json'))['property'])")
  if [ $# -gt 0 ]; then case " $* " in *" $id "*) ;; *) continue;; esac; fi
  grep -q "^$id|" $res 2>/dev/null && continue
  tmp=/tmp/rv_$$.diff
  if ! tools/rebase_patch.sh $d/patch.diff $tmp >/dev/null 2>&1; then echo "$id|REBASE-FAILED" | tee -a $res; continue; fi
  [ -s $tmp ] || { echo "$id|EMPTY-PATCH" | tee -a $res; continue; }
  r=$(VERIF_BUDGET_S=900 timeout 1200 tools/try_mutant.sh $tmp $prop 2>&1 | tail -2 | tr '\n' ' ')
  rc=$(echo "$r" | sed -n 's/.*exit=\([0-9]*\).*/\1/p')
  echo "$id|rc=$rc" | tee -a $res
  if [ "$rc" = 1 ] && ! cmp -s $tmp $d/patch.diff; then cp $tmp $d/patch.diff; fi
done
rm -f /tmp/rv_$$.diff
