#!/bin/bash
# usage: try_benign.sh <patch file> <log file>
# Applies a behaviour-preserving change to a scratch worktree of /repo HEAD and runs EVERY claimed quick check against it.
# Every check must exit 0 (a non-zero exit is a false alarm or a fragile harness). Removes the worktree afterwards.
patch=$(readlink -f "$1"); log=$2
wt=/tmp/tb_$$
git -C /repo worktree add -f --detach $wt HEAD >/dev/null 2>&1 || { echo "worktree failed"; exit 9; }
trap 'git -C /repo worktree remove --force $wt >/dev/null 2>&1; rm -rf $wt' EXIT
git -C $wt apply "$patch" || { echo "PATCH DOES NOT APPLY" | tee -a $log; exit 7; }
cd /verif
bad=0
for id in $(python3 -c "import json;print(' '.join(c['property_id'] for c in json.load(open('MANIFEST.json'))['checks']))"); do
  out=$(VERIF_REPO=$wt VERIF_BUDGET_S=${VERIF_BUDGET_S:-1500} timeout 1800 ./check $id --tier quick 2>&1); rc=$?
  echo "$(basename $(dirname $patch))/$(basename $patch) $id rc=$rc | $(echo "$out" | grep "^$id \[" | tail -1 | cut -c1-160)" | tee -a $log
  if [ $rc -ne 0 ]; then bad=1; echo "$out" | grep -v "^   " | grep -E "VIOLATION|INCONCLUSIVE|ENGINE|error" | head -6 | tee -a $log; fi
done
exit $bad
