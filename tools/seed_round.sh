#!/bin/bash
# usage: seed_round.sh <outdir e.g. /tmp/mut_out2> <results file> [props...]
out=$1; res=$2; shift 2
cd /verif
for d in $out/C*/m*; do
  prop=$(basename $(dirname $d)); m=$(basename $d); id="$prop-$m"
  if [ $# -gt 0 ]; then case " $* " in *" $prop "*) ;; *) continue;; esac; fi
  [ -f "$d/patch.diff" ] || continue
  grep -q "^$id|" $res 2>/dev/null && continue
  o=$(timeout 900 tools/verify_mutant.sh $d 2>&1 | tail -2 | tr '\n' ' ')
  conf=no; echo "$o" | grep -q CONFIRMED && ! echo "$o" | grep -q NOT-CONFIRMED && conf=yes
  rc=-1
  if [ $conf = yes ]; then
    r=$(VERIF_BUDGET_S=900 timeout 1200 tools/try_mutant.sh $d/patch.diff $prop 2>&1 | tail -2 | tr '\n' ' ')
    rc=$(echo "$r" | sed -n 's/.*exit=\([0-9]*\).*/\1/p')
  fi
  echo "$id | confirmed=$conf | $(echo $o | cut -c1-120) | check rc=$rc"
  echo "$id|$conf|$o|$rc" >> $res
done
