#!/bin/bash
# usage: rebase_patch.sh <patch.diff> <out.diff>
# Re-creates a seeded change on top of the current /repo HEAD (fuzzy apply in a scratch worktree, then git diff).
set -u
p=$(readlink -f "$1"); out=$2
wt=/tmp/rb_$$
git -C /repo worktree add -f --detach $wt HEAD >/dev/null 2>&1 || { echo "worktree failed"; exit 9; }
rc=0
if (cd $wt && git apply "$p" 2>/dev/null); then :; 
elif (cd $wt && patch -p1 -F3 --no-backup-if-mismatch -s < "$p" >/dev/null 2>&1); then echo "fuzzy: $p"; 
else echo "REJECTED: $p"; rc=1; fi
(cd $wt && find . -name '*.rej' -delete; find . -name '*.orig' -delete; git diff) > "$out"
git -C /repo worktree remove --force $wt >/dev/null 2>&1; rm -rf $wt
exit $rc
