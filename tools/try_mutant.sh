#!/bin/bash
# usage: try_mutant.sh <patch.diff> <Cxx> [check args...]  -- applies the patch to /repo, runs the check, reverts
set -u
patch=$(readlink -f "$1"); prop=$2; shift 2
cd /repo && git apply "$patch" || { echo "PATCH DOES NOT APPLY"; exit 9; }
cd /verif && ./check "$prop" "$@" 2>&1 | grep -v "^   " | tail -8; rc=${PIPESTATUS[0]}
git -C /repo checkout -- . 
echo "exit=$rc"
