#!/bin/bash
# usage: try_mutant.sh <patch.diff> <Cxx> [check args...]
# Runs the check against a tree with the patch applied. By default the patch is applied to a scratch worktree of
# /repo HEAD and the check is pointed at it with VERIF_REPO (safe while other runs read /repo); with IN_REPO=1 the
# patch is applied to /repo itself and reverted afterwards (git checkout -- .), as the task description does.
set -u
patch=$(readlink -f "$1"); prop=$2; shift 2
if [ "${IN_REPO:-0}" = 1 ]; then
  cd /repo && git apply "$patch" || { echo "PATCH DOES NOT APPLY"; exit 9; }
  cd /verif && ./check "$prop" "$@" 2>&1 | grep -v "^   " | tail -8; rc=${PIPESTATUS[0]}
  git -C /repo checkout -- .
else
  wt=/tmp/tm_$$
  git -C /repo worktree add -f $wt HEAD >/dev/null 2>&1 || { echo "worktree failed"; exit 9; }
  (cd $wt && git apply "$patch") || { echo "PATCH DOES NOT APPLY"; git -C /repo worktree remove --force $wt; exit 9; }
  cd /verif && VERIF_REPO=$wt ./check "$prop" "$@" 2>&1 | grep -v "^   " | tail -8; rc=${PIPESTATUS[0]}
  git -C /repo worktree remove --force $wt >/dev/null 2>&1; rm -rf $wt
fi
echo "exit=$rc"
