#!/bin/bash
# verify every sub-agent mutant against /repo HEAD and run the property's check on it; write seeded/<id>/...
cd /verif
for d in /tmp/mut_out/C*/m*; do
  prop=$(basename $(dirname $d)); m=$(basename $d); id="$prop-$m"
  [ -f "$d/patch.diff" ] || continue
  [ -d "seeded/$id" ] && [ -f "seeded/$id/meta.json" ] && continue
  out=$(timeout 600 tools/verify_mutant.sh $d 2>&1 | tail -2 | tr '\n' ' ')
  conf=no; echo "$out" | grep -q CONFIRMED && ! echo "$out" | grep -q NOT-CONFIRMED && conf=yes
  chk="skipped"; rc=-1
  if [ $conf = yes ]; then
    res=$(VERIF_BUDGET_S=900 timeout 1200 tools/try_mutant.sh $d/patch.diff $prop 2>&1 | tail -2 | tr '\n' ' ')
    rc=$(echo "$res" | sed -n 's/.*exit=\([0-9]*\).*/\1/p'); chk="$res"
  fi
  echo "$id | confirmed=$conf | $out | check rc=$rc"
  echo "$id|$conf|$out|$rc|$chk" >> /tmp/seed_results.txt
done
