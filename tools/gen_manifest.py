#!/usr/bin/env python3
"""Regenerate /verif/MANIFEST.json from the table below (claimed = a specs/Cxx.py exists and is listed here)."""
import json
import os

VERIF = os.path.dirname(os.path.dirname(os.path.abspath(__file__)))
TECH = "bounded symbolic execution of clang-14 LLVM IR of kernels instantiating the real rlbox headers; z3 decides pc AND NOT assertion per path; counterexamples replayed natively"
TRUST = ("IR interpreter (engine/symex.py, validated per run against the native build on concrete vectors), z3, clang-14 -O1; "
         "model backends in backends/verif_sandbox.hpp honour the backend contract; allocation never fails; locks correct; single thread")

MC = "model_checking"
CLAIMED = {
    # id: (category, text, level_note extra, design_ref)
    "C06": (MC, "Every ordered pair of 14 integer types (+bool source) through convert_type_fundamental with a full-width symbolic source, arrays "
                "through convert_type_fundamental_or_array, and store/load/UNSAFE_sandboxed through the wrappers on an LP32 model backend: "
                "abort iff unrepresentable, else value preserved - for all source values (no sampling).",
            "bool destination and float/enum are outside the claim.", "DESIGN.md 4/C06"),
    "C03": (MC, "Inductive step over 31 pointer-producing operations (guest representations arriving as results/arguments, loads of pointer cells, "
                "array elements and struct fields, + - [] &[] ++ --, & * ->, sandbox casts, opaque round trip, malloc_in_sandbox with an arbitrary "
                "allocator result, app_pointer, UNSAFE_accept_pointer): every input pointer only assumed null-or-inside, output proved null-or-inside "
                "or the path aborts, for all bases, pointers, representations, indices.",
            "One known finding (object straddling the region end) is excluded by predicate and reported as KNOWN-FINDING.", "DESIGN.md 4/C03"),
    "C16": (MC, "Each rlbox operator expression (18 binary x 8 wrapper combinations, unary, compound assignment, ++/--) is compared by the solver with "
                "the same expression on plain values compiled in the same TU: equal value, C++ result type (is_same flag), operand update, and "
                "abort only when a sandbox-resident operand cannot hold the plain result - for all operand values.",
            "The ten standard integer types, float and double (incl. NaN/inf/denormal bit patterns); long double, bool and character types not covered; UB inputs of the plain expression carry no obligation.", "DESIGN.md 4/C16"),
    "C17": (MC, "a[i] on tainted<T[N]> (application memory) and tainted_volatile<T[N]> (sandbox memory) for 4 element types x lengths x index types "
                "and two-level arrays: aborts iff i<0 or i>=N (mathematical), else designates exactly start+i*stride of that memory's layout; no access "
                "outside the array object - for every index value.",
            "", "DESIGN.md 4/C17"),
    "C02": (MC, "Run-time half: assign_raw_pointer on tainted and tainted_volatile and UNSAFE_accept_pointer for six pointee kinds abort iff the address is "
                "outside that sandbox's region (symbolic base and address; with two live sandboxes the address may be in the other one); accepted values "
                "are stored unchanged / as the representation relative to that sandbox, touching only the cell.",
            "Compile-time half: only as 'rejected or checked' for eight listed program shapes (optional kernels with positive controls): a shape the tree rejects has no IR "
            "to execute and counts as held; a shape a tree accepts must satisfy the run-time obligation. The general compile-time clause (all programs) is NOT decided "
            "(same reason as C01).", "DESIGN.md 4/C02"),
    "C04": (MC, "Four translation entry points, convert_type in all direction x context combinations, arrays of pointers, pointer cells, pointer arrays and "
                "struct pointer fields (store and load), free: round trips and 0<->null for all 2^32 offsets and symbolic base; three live sandbox objects of "
                "a multi-instance backend in all 6 creation orders x 7 destroy choices through the real sandbox_list/find_sandbox_from_example: a cell in "
                "sandbox i is always encoded/decoded relative to sandbox i.",
            "At most 3 live sandboxes.", "DESIGN.md 4/C04"),
    "C07": (MC, "Stores and four load forms for 19 scalar types, arrays, pointer arrays and struct fields at every address where the guest object fits: "
                "access log within [p,p+size_guest), bytes equal the guest encoding, every other byte of (fully symbolic) sandbox memory unchanged, loads "
                "decode exactly those bytes; pointer-array copies on the noop backend.",
            "", "DESIGN.md 4/C07"),
    "C20": (MC, "to_opaque/from_opaque byte-identity for scalars, pointers, arrays and a struct; opaque and tainted arguments of an invocation observed "
                "identically by the guest (or both abort); sandbox_reinterpret/const/static_cast on tainted and tainted_volatile sources equal the C++ cast "
                "on the decoded value and keep pointer addresses - all bit patterns.",
            "Opaque callback results are checked under C12.", "DESIGN.md 4/C20"),
    "C10": (MC, "memset/memcpy/memcmp (plain and tainted size operands), copy_and_verify_range/_string/_buffer_address, "
                "unverified_safe_pointer_because, copy_memory_or_grant/deny_access on copy and grant/deny capable model backends: the operation "
                "proceeds (range event / pointer handed out) only for non-null, non-wrapping ranges wholly inside (sandbox side) or not straddling "
                "(application side), touches exactly the designated bytes, and a valid non-empty request is not refused - for all starts and all 2^64 extents.",
            "Loop-bound preconditions: count<=6, first NUL within 7 bytes.", "DESIGN.md 4/C10"),
    "C09": (MC, "12 copy_and_verify variants (values, pointers, struct, array, range, strings with both verifier signatures incl. a sandbox-resident "
                "char*, deny_access copy) executed with adversarial sandbox memory - every read returns a fresh unconstrained value, i.e. any interleaving "
                "of a sandbox writer - and a logging verifier: the verifier's object is in application memory, no sandbox read happens once the verifier "
                "is entered, string buffers have exactly checked-length+1 bytes ending in NUL for every adversary choice, no application overrun or null write.",
            "Counterexamples are solver-chosen schedules and are not replayed natively; bounds strlen<=6, count<=4.", "DESIGN.md 4/C09"),
    "C15": (MC, "Inductive step on rlbox's app_pointer_map<uint8_t> (compiled unmodified against a total-function std::map model): from an arbitrary table "
                "state satisfying the invariant and an arbitrary limit, one register/release/lookup with arbitrary arguments keeps the invariant, issues a "
                "non-zero in-range previously-unused token mapping to the pointer, changes nothing else, and aborts exactly when no token is free / the "
                "token is absent; constructor as base case - covers histories of any length up to the limit bound. Owner objects (move, overwrite, destroy, "
                "unregister) on the real container: all histories up to the depth bound against a reference model; stale-token lookups abort.",
            "limit<=12 quick / 40 thorough; 8-bit tokens; owner histories depth 3/4.", "DESIGN.md 4/C15"),
    "C13": (MC, "noop backend: every history up to the depth bound over 24 concrete ownership operations (register f_i into o_j, unregister, move-assign onto "
                "empty/live owners, self-move-assign, move-construct+destroy) on 3 functions x 3 owners, run in lock-step with a reference model written from the property text: "
                "abort exactly on duplicate registration, is_unregistered() per owner after every step, and at the end exactly the live owners' functions are "
                "reachable through their entry points; 65 registrations on the 64-entry table are refused; slot reuse (first/middle/last) works; owner "
                "operations after destroy_sandbox are harmless.",
            "The symbolic input is the operation sequence; depth 3 (quick) / 4 (thorough).", "DESIGN.md 4/C13"),
    "C12": (MC, "Foreign-ABI model backend with two live sandboxes: for callbacks long(long), int*(int*), opaque long(long), void(short,unsigned long) and "
                "four registration histories (slot reuse, re-registration, overwrite), calling an entry point runs exactly the function registered for it, "
                "once, with the executing sandbox, the converted argument (all values), and returns the converted result or aborts iff unrepresentable. "
                "Bundled noop and dylib backends in both TLS configurations: five nested call trees (invoke->callback->invoke(other sandbox)->callback, then "
                "another callback of the outer sandbox) dispatch exactly the registered functions with the right sandbox.",
            "Guest code is stubs; nesting depth <=3.", "DESIGN.md 4/C12"),
    "C11": (MC, "Foreign-ABI multi-instance backend in by-name lookup mode (real per-instance std::map<std::string,void*> cache): 5 signatures (0..6 "
                "parameters) x 3 argument wrapper forms with all argument/result values symbolic: the guest stub of that instance's library is called exactly "
                "once with every argument's guest-ABI image (or the call aborts before it iff some argument is unrepresentable) and the result comes back "
                "converted; two live instances exporting the same name in both lookup orders; function address before and after an invocation; noop "
                "static-call mode.",
            "Struct-by-value and callback parameters are covered by C08/C12.", "DESIGN.md 4/C11"),
    "C14": (MC, "Every history up to the depth bound over 12 concrete lifecycle operations on two sandbox objects of the multi-instance backend (create with a "
                "symbolic backend result, destroy, malloc, free, register, unregister, invoke by name, get_app_pointer, example-based translation), in "
                "lock-step with a reference state machine written from the property text: aborts exactly on out-of-order create/destroy/register/lookup, "
                "backend allocator/free reached only inside the created window, registry finds a sandbox exactly between create and destroy; plus "
                "re-creation scenarios: registrations and cached symbol addresses of the earlier incarnation are not visible.",
            "Depth 3 (quick) / 4 (thorough); behaviour after a failed create is don't-care beyond 'unusable'.", "DESIGN.md 4/C14"),
    "C19": (MC, "With transition hooks, transition timing and aborts surfaced as exceptions enabled, four call trees on the foreign-ABI backend are explored "
                "with symbolic faults (the solver picks which argument conversion, callback body or result conversion aborts): on every path, normal or "
                "exceptional, the hook log is a well-nested word (invocation in..out, callback out..in) with matching function identity and transition state, "
                "and exactly one timing record per crossing; on the noop backend a nested two-sandbox tree carries each sandbox's own state and files timing "
                "records with the right sandbox.",
            "Depth <=3, width <=2.", "DESIGN.md 4/C19"),
    "C18": ("other", "Decided by decomposition, not by enumerating schedules: the solver-driven exploration proves on all paths (symbolic creation orders, "
                   "destroy choices, addresses, call trees) that (1) every read of rlbox's process-wide mutable state (sandbox_list and its buffer) is under "
                   "sandbox_list_lock (shared or unique) and every write under the unique lock, no other non-thread-local rlbox global is written, and the "
                   "noop/dylib per-thread records are thread_local in the IR in both TLS configurations; (2) with other sandboxes live in any order, "
                   "lookups/translations for a sandbox return what they return alone. Under correct lock primitives these imply race freedom and "
                   "non-interference for any number of threads.",
            "Does not cover weak-memory effects, the lock implementation, or custom shared-lock substitutes; no interleaving is executed.", "DESIGN.md 4/C18"),
    "C08": (MC, "For generated structs registered through rlbox's reflection macros (all integer widths, bool, enum, float, double, object and function "
                "pointers, arrays, arrays of pointers, nested struct; seeded permutations in the thorough tier): guest size and every field offset equal an "
                "independent LP32 layout computed in Python; struct store writes every field's converted value at its offset and no other byte, aborts iff a "
                "field is unrepresentable; both load forms, by-value argument and by-value result relate every field correctly - all field values and guest "
                "bytes symbolic; from(to(s)) == s discharged as a composed query.",
            "Const-qualified fields and nesting depth > 2 are outside the claim.", "DESIGN.md 4/C08"),
    "C05": (MC, "p+n, p-n, +=, -=, ++/-- (pre/post), p[n], &p[n] for 8 pointee types x integer index types (plain, tainted, tainted_volatile) on LP32/LP16 "
                "model backends with symbolic region base, pointer and full-width index: returns iff the exact 128-bit address p+/-n*s_guest is inside "
                "the region and then returns exactly it, else aborts; null aborts.",
            "Pointee/index families are the listed ones; guest strides computed independently in the spec.", "DESIGN.md 4/C05"),
}

NOT_APPLICABLE = {
    "C01": "compile-time acceptance/rejection of programs by the C++ type system (overload resolution, SFINAE, static_assert): a rejected "
           "program has no IR to execute and no run-time input to make symbolic; out of reach of solver-based checking of the code (DESIGN.md 4/C01)",
}

NOT_YET = "check not built yet in this session (planned, see DESIGN.md section 4)"


def main():
    props = [json.loads(l) for l in open(os.path.join(VERIF, "properties.jsonl"))]
    checks = []
    na = []
    for p in props:
        pid = p["id"]
        if pid in CLAIMED and os.path.exists(os.path.join(VERIF, "specs", pid + ".py")):
            cat, text, note, ref = CLAIMED[pid]
            checks.append({
                "property_id": pid,
                "quick_cmd": "./check %s --tier quick" % pid,
                "thorough_cmd": "./check %s --tier thorough" % pid,
                "evidence_file": "evidence/%s.json" % pid,
                "replay_cmd_template": "./check %s --replay {path}" % pid,
                "engine": "ir-symex",
                "level_claimed": {"category": cat, "text": text, "design_ref": ref},
                "level_note": (note + " " if note else "") + "Trusted base: " + TRUST,
                "technique": TECH,
            })
        else:
            na.append({"property_id": pid, "reason": NOT_APPLICABLE.get(pid, NOT_YET)})
    man = {
        "version": 1,
        "setup_cmd": "./tools/setup.sh",
        "hooks": {
            "guard": "ALLENABY_RLBOX_VERIF",
            "enable": "every kernel TU is compiled with -DALLENABY_RLBOX_VERIF (engine/fw.py); the source hooks are rlbox_sandbox::verif_advance_incarnation / verif_advance_incarnation_wide "
                      "(stands for n create/destroy cycles of a not-created sandbox object; used by C13/C14 to quantify over the distance between incarnations; DESIGN.md 3.3)",
            "baseline_off_cmd": "cmake -S /repo -B /repo/_build -G Ninja >/dev/null && cmake --build /repo/_build >/dev/null && ctest --test-dir /repo/_build -j8 --timeout 900",
            "source_commits": ["34c2b8f", "04339b6"],
            "add_only": True,
        },
        "engines": [{
            "name": "ir-symex",
            "path": "engine/",
            "serves_properties": [c["property_id"] for c in checks],
            "kind_free_text": "own LLVM-IR parser + path-enumerating symbolic executor on z3 bit-vectors/arrays (python3-vt), native replay driver",
        }],
        "checks": checks,
        "notes": "Every check regenerates its encoding from /repo's working tree (VERIF_REPO overrides). Exit 2 = inconclusive, 3 = engine self-check failed; neither occurs on the unchanged tree.",
        "not_applicable": na,
    }
    with open(os.path.join(VERIF, "MANIFEST.json"), "w") as f:
        json.dump(man, f, indent=1)
    print("claimed", [c["property_id"] for c in checks], "not claimed", [n["property_id"] for n in na])


if __name__ == "__main__":
    main()
