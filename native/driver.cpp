// Native replay / translator-validation driver. Linked with a natively compiled
// kernel TU. Reads "cases" from stdin, runs each in a forked child (so aborts,
// crashes and leaked state cannot leak between cases) and prints what happened.
//
//   case
//   map <base> <size>          mmap sandbox region (MAP_FIXED_NOREPLACE|MAP_NORESERVE)
//   poke <addr> <hexbytes>     write bytes at an absolute address (inside a mapped region)
//   buf <id> <size> [hexbytes] allocate an application buffer
//   env <v> <v> ...            queue of values returned by env_u64, in call order
//   call <kernel> <arg>...     arg = hex | @id | @id+hexoff
//   peek <addr> <n>            (after call) print n bytes at addr
//   dumpbuf <id>               (after call) print buffer contents
//   end
#include <csetjmp>
#include <csignal>
#include <exception>
#include <cstdint>
#include <cstdio>
#include <cstdlib>
#include <cstring>
#include <dlfcn.h>
#include <string>
#include <sys/mman.h>
#include <sys/wait.h>
#include <unistd.h>
#include <vector>

static sigjmp_buf g_jb;
static std::string g_abort_msg;
static std::vector<uint64_t> g_env;
static size_t g_env_pos = 0;
static bool g_in_call = false;

extern "C" {
[[noreturn]] void verif_abort(const char* msg)
{
  g_abort_msg = msg ? msg : "";
  if (!g_in_call) {
    printf("status abort-outside-call %s\n", g_abort_msg.c_str());
    fflush(stdout);
    _exit(0);
  }
  siglongjmp(g_jb, 1);
}
uint64_t env_u64(uint32_t tag)
{
  uint64_t v = 0;
  if (g_env_pos < g_env.size()) {
    v = g_env[g_env_pos++];
  } else {
    printf("envexhausted %x\n", tag);
  }
  printf("envget %x %llx\n", tag, (unsigned long long)v);
  return v;
}
void env_log(uint32_t tag, uint64_t a, uint64_t b, uint64_t c)
{
  printf("envlog %x %llx %llx %llx\n", tag, (unsigned long long)a, (unsigned long long)b,
         (unsigned long long)c);
}
}

struct Buf
{
  unsigned char* raw;
  unsigned char* p;
  size_t n;
};
static std::vector<Buf> g_bufs;

static std::vector<unsigned char> unhex(const char* s)
{
  std::vector<unsigned char> out;
  size_t n = strlen(s);
  for (size_t i = 0; i + 1 < n; i += 2) {
    unsigned v;
    sscanf(s + i, "%2x", &v);
    out.push_back((unsigned char)v);
  }
  return out;
}

static uint64_t parse_arg(const std::string& t)
{
  if (t[0] == '@') {
    size_t plus = t.find('+');
    int id = atoi(t.substr(1, plus == std::string::npos ? std::string::npos : plus - 1).c_str());
    uint64_t off = plus == std::string::npos ? 0 : strtoull(t.c_str() + plus + 1, nullptr, 16);
    if (id < 0 || (size_t)id >= g_bufs.size()) {
      printf("status bad-buffer-ref\n");
      fflush(stdout);
      _exit(0);
    }
    return (uint64_t)(uintptr_t)g_bufs[id].p + off;
  }
  return strtoull(t.c_str(), nullptr, 16);
}

static void on_signal(int sig)
{
  // async-signal-unsafe printf is tolerable here: we are about to exit the child
  printf("status signal %d\n", sig);
  fflush(stdout);
  _exit(0);
}

// std::terminate (an exception meeting a noexcept boundary, or escaping the kernel) ends the process like an abort
static void on_terminate()
{
  printf("status abort std::terminate\n");
  fflush(stdout);
  _exit(0);
}

typedef uint64_t (*kfn)(uint64_t, uint64_t, uint64_t, uint64_t, uint64_t, uint64_t, uint64_t, uint64_t, uint64_t, uint64_t, uint64_t, uint64_t,
                        uint64_t, uint64_t, uint64_t, uint64_t);

static void run_case(const std::vector<std::string>& lines)
{
  signal(SIGSEGV, on_signal);
  signal(SIGBUS, on_signal);
  signal(SIGFPE, on_signal);
  signal(SIGILL, on_signal);
  signal(SIGABRT, on_signal);
  std::set_terminate(on_terminate);
  bool called = false;
  for (const auto& ln : lines) {
    std::vector<std::string> tok;
    {
      size_t i = 0;
      while (i < ln.size()) {
        while (i < ln.size() && ln[i] == ' ') i++;
        size_t j = i;
        while (j < ln.size() && ln[j] != ' ') j++;
        if (j > i) tok.push_back(ln.substr(i, j - i));
        i = j;
      }
    }
    if (tok.empty()) continue;
    const std::string& c = tok[0];
    if (c == "map") {
      uint64_t base = strtoull(tok[1].c_str(), nullptr, 16), size = strtoull(tok[2].c_str(), nullptr, 16);
      void* r = mmap((void*)base, size, PROT_READ | PROT_WRITE,
                     MAP_PRIVATE | MAP_ANONYMOUS | MAP_NORESERVE | MAP_FIXED_NOREPLACE, -1, 0);
      if (r != (void*)base) {
        printf("status map-failed %llx\n", (unsigned long long)base);
        fflush(stdout);
        _exit(0);
      }
    } else if (c == "poke") {
      uint64_t a = strtoull(tok[1].c_str(), nullptr, 16);
      auto b = unhex(tok[2].c_str());
      memcpy((void*)a, b.data(), b.size());
    } else if (c == "buf") {
      size_t id = (size_t)atoi(tok[1].c_str());
      size_t n = strtoull(tok[2].c_str(), nullptr, 16);
      Buf b;
      b.raw = (unsigned char*)malloc(n + 128);
      memset(b.raw, 0xA5, n + 128);
      b.p = b.raw + 64;
      b.n = n;
      if (tok.size() > 3) {
        auto d = unhex(tok[3].c_str());
        memcpy(b.p, d.data(), d.size() < n ? d.size() : n);
      }
      if (g_bufs.size() <= id) g_bufs.resize(id + 1);
      g_bufs[id] = b;
    } else if (c == "env") {
      for (size_t i = 1; i < tok.size(); i++) g_env.push_back(strtoull(tok[i].c_str(), nullptr, 16));
    } else if (c == "call") {
      void* sym = dlsym(RTLD_DEFAULT, tok[1].c_str());
      if (!sym) {
        printf("status no-such-kernel %s\n", tok[1].c_str());
        fflush(stdout);
        _exit(0);
      }
      uint64_t a[16] = { 0 };
      for (size_t i = 2; i < tok.size() && i < 18; i++) a[i - 2] = parse_arg(tok[i]);
      called = true;
      if (sigsetjmp(g_jb, 0) == 0) {
        g_in_call = true;
        uint64_t r = ((kfn)sym)(a[0], a[1], a[2], a[3], a[4], a[5], a[6], a[7], a[8], a[9], a[10], a[11], a[12], a[13], a[14], a[15]);
        g_in_call = false;
        printf("status ret %llx\n", (unsigned long long)r);
      } else {
        g_in_call = false;
        printf("status abort %s\n", g_abort_msg.c_str());
      }
    } else if (c == "peek") {
      uint64_t a = strtoull(tok[1].c_str(), nullptr, 16);
      size_t n = strtoull(tok[2].c_str(), nullptr, 16);
      printf("peek %llx ", (unsigned long long)a);
      for (size_t i = 0; i < n; i++) printf("%02x", ((unsigned char*)a)[i]);
      printf("\n");
    } else if (c == "dumpbuf") {
      size_t id = (size_t)atoi(tok[1].c_str());
      printf("buf %zu ", id);
      for (size_t i = 0; i < g_bufs[id].n; i++) printf("%02x", g_bufs[id].p[i]);
      bool rz = true;
      for (size_t i = 0; i < 64; i++)
        if (g_bufs[id].raw[i] != 0xA5 || g_bufs[id].p[g_bufs[id].n + i] != 0xA5) rz = false;
      printf(" %s\n", rz ? "redzone-ok" : "redzone-corrupt");
    }
  }
  (void)called;
  fflush(stdout);
  _exit(0);
}

int main()
{
  setvbuf(stdout, nullptr, _IOFBF, 1 << 16);
  char* line = nullptr;
  size_t cap = 0;
  std::vector<std::string> cur;
  bool in_case = false;
  while (getline(&line, &cap, stdin) > 0) {
    std::string s(line);
    while (!s.empty() && (s.back() == '\n' || s.back() == '\r')) s.pop_back();
    if (s == "case") {
      in_case = true;
      cur.clear();
    } else if (s == "end" && in_case) {
      fflush(stdout);
      pid_t pid = fork();
      if (pid == 0) run_case(cur);
      int st = 0;
      waitpid(pid, &st, 0);
      if (WIFSIGNALED(st)) printf("status killed %d\n", WTERMSIG(st));
      printf("endcase\n");
      fflush(stdout);
      in_case = false;
    } else if (in_case) {
      cur.push_back(s);
    }
  }
  return 0;
}
