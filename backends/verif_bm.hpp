// BM: multi-instance model backend (LP32 ABI, 4 GiB regions). Unlike rlbox_vsbx every context-free
// operation goes through rlbox's own find_sandbox_from_example, i.e. the real sandbox_list walk under
// the real lock macros. It also has an invoke path, a callback table with guest-side 32-bit entry
// point handles, and distinct lookup_symbol / internal_lookup_symbol. See DESIGN.md 3.1.
#pragma once
#include "verif_env.hpp"
#include <utility>
#include <type_traits>
#include "rlbox.hpp"

namespace rlbox {

enum : uint32_t {
  BM_TAG_CREATE = 0x201,   // env_u64: result of impl_create_sandbox when asked
  BM_TAG_DESTROY = 0x202,  // env_log
  BM_TAG_MALLOC = 0x203,   // env_log(size) + env_u64: allocator result
  BM_TAG_FREE = 0x204,     // env_log(rep)
  BM_TAG_LOOKUP = 0x205,   // env_log(instance id, which table, index)
  BM_TAG_CBREG = 0x206,    // env_log(instance id, slot, signature fingerprint) - the backend sees the guest-ABI signature
  BM_TAG_CBUNREG = 0x207,  // env_log(instance id, slot, signature fingerprint)
};

class rlbox_bm
{
public:
  using T_LongLongType = int64_t;
  using T_LongType = int32_t;
#ifdef BM_WIDE_INT
  using T_IntType = int64_t;   // a guest whose int is wider than the application's: guest -> application narrowing can be refused
#else
  using T_IntType = int32_t;
#endif
  using T_PointerType = uint32_t;
  using T_ShortType = int16_t;
  using needs_internal_lookup_symbol = void;
  static constexpr uint64_t SIZE = 1ull << 32;
  static constexpr uint32_t NSLOTS = 4;
  static constexpr uint32_t CB_REP_BASE = 0x1000;     // guest handle of callback slot i = CB_REP_BASE + 16*i
  static constexpr uint64_t FN_TAG = 0x7F0000000000ull; // application-side tag of guest function addresses
  static constexpr uint32_t FN_XOR = 0xA5000000u;        // function pointers and data pointers are represented differently
  using Finder = rlbox_bm* (*)(const void*);

  uintptr_t base = 0;
  uint32_t id = 0;
  // symbol tables (by-name mode): name -> guest function (lookup) / guest handle (internal lookup)
  struct Sym { const char* name; void* fn; uint32_t handle; };
  Sym syms[16] = {};
  uint32_t nsyms = 0;
  void* cb_keys[NSLOTS] = {};
  void* cb_interceptors[NSLOTS] = {};
  static inline rlbox_bm* cur_sandbox = nullptr;
  static inline uint32_t cur_slot = 0;

  void clear_symbols() { nsyms = 0; }   // "another library is loaded": the next incarnation resolves names afresh
  void add_symbol(const char* name, void* fn, uint32_t handle) { if (nsyms >= 16) verif_abort("BM: symbol table full"); syms[nsyms++] = Sym{ name, fn, handle }; }

  static bool streq(const char* a, const char* b)
  {
    for (;; a++, b++) {
      if (*a != *b) return false;
      if (*a == 0) return true;
    }
  }

  // guest code calling back into the application through a registered entry point
  template<typename T_Ret, typename... T_Args>
  T_Ret guest_call_callback(uint32_t handle, T_Args... args)
  {
    uint32_t slot = (handle - CB_REP_BASE) / 16;
    if (handle < CB_REP_BASE || ((handle - CB_REP_BASE) & 15) != 0 || slot >= NSLOTS || cb_interceptors[slot] == nullptr)
      verif_abort("guest called an entry point that is not registered");
    auto old_slot = cur_slot;
    cur_slot = slot;
    using F = T_Ret (*)(T_Args...);
    if constexpr (std::is_void_v<T_Ret>) {
      reinterpret_cast<F>(cb_interceptors[slot])(args...);
      cur_slot = old_slot;
    } else {
      T_Ret r = reinterpret_cast<F>(cb_interceptors[slot])(args...);
      cur_slot = old_slot;
      return r;
    }
  }

protected:
  inline bool impl_create_sandbox(uintptr_t b, uint32_t ident = 0, bool ask_env = false, bool fail_by_abort = false)
  {
    base = b;
    id = ident;
    // like the dylib backend when the library cannot be loaded: the failure is an abort (an exception with RLBOX_USE_EXCEPTIONS)
    if (fail_by_abort) detail::dynamic_check(env_u64(BM_TAG_CREATE) != 0, "BM: the backend could not be created");
    if (ask_env) return env_u64(BM_TAG_CREATE) != 0;
    return true;
  }
  inline void impl_destroy_sandbox() { env_log(BM_TAG_DESTROY, id, 0, 0); }

  template<typename T>
  inline void* impl_get_unsandboxed_pointer(T_PointerType p) const
  {
    if constexpr (std::is_function_v<std::remove_pointer_t<T>>)
      return reinterpret_cast<void*>(FN_TAG | static_cast<uintptr_t>(p ^ FN_XOR));   // table handle -> application-side function address
    else
      return reinterpret_cast<void*>(base + static_cast<uintptr_t>(p));
  }
  template<typename T>
  inline T_PointerType impl_get_sandboxed_pointer(const void* p) const
  {
    if constexpr (std::is_function_v<std::remove_pointer_t<T>>)
      return static_cast<T_PointerType>(reinterpret_cast<uintptr_t>(p)) ^ FN_XOR;   // differs from the data-pointer translation of the same bits
    else
      return static_cast<T_PointerType>(reinterpret_cast<uintptr_t>(p) - base);
  }
  template<typename T>
  static inline void* impl_get_unsandboxed_pointer_no_ctx(T_PointerType p, const void* ex, Finder f)
  {
    auto sb = f(ex);
    if (!sb) verif_abort("BM: no live sandbox contains the example address");
    return sb->template impl_get_unsandboxed_pointer<T>(p);
  }
  template<typename T>
  static inline T_PointerType impl_get_sandboxed_pointer_no_ctx(const void* p, const void* ex, Finder f)
  {
    auto sb = f(ex);
    if (!sb) verif_abort("BM: no live sandbox contains the example address");
    return sb->template impl_get_sandboxed_pointer<T>(p);
  }
  inline T_PointerType impl_malloc_in_sandbox(size_t sz)
  {
    env_log(BM_TAG_MALLOC, id, sz, 0);
    return static_cast<T_PointerType>(env_u64(BM_TAG_MALLOC));
  }
  inline void impl_free_in_sandbox(T_PointerType p) { env_log(BM_TAG_FREE, id, (uint64_t)p, 0); }

  static inline bool impl_is_in_same_sandbox(const void* p1, const void* p2, Finder f) { return f(p1) == f(p2); }
  inline bool impl_is_pointer_in_sandbox_memory(const void* p)
  {
    auto a = reinterpret_cast<uintptr_t>(p);
    return a >= base && a - base < SIZE;
  }
  inline bool impl_is_pointer_in_app_memory(const void* p) { return !impl_is_pointer_in_sandbox_memory(p); }
  inline size_t impl_get_total_memory() { return SIZE; }
  inline void* impl_get_memory_location() { return reinterpret_cast<void*>(base); }

  void* impl_lookup_symbol(const char* name)
  {
    for (uint32_t i = 0; i < nsyms; i++)
      if (streq(syms[i].name, name)) { env_log(BM_TAG_LOOKUP, id, 0, i); return syms[i].fn; }
    verif_abort("BM: unknown symbol");
  }
  void* impl_internal_lookup_symbol(const char* name)
  {
    for (uint32_t i = 0; i < nsyms; i++)
      if (streq(syms[i].name, name)) { env_log(BM_TAG_LOOKUP, id, 1, i); return reinterpret_cast<void*>(FN_TAG | (syms[i].handle ^ FN_XOR)); }
    verif_abort("BM: unknown symbol");
  }

  template<typename T, typename T_Converted, typename... T_Args>
  auto impl_invoke_with_func_ptr(T_Converted* func_ptr, T_Args&&... params)
  {
    auto old = cur_sandbox;
    cur_sandbox = this;
    auto on_exit = detail::make_scope_exit([&] { cur_sandbox = old; });
    return (*func_ptr)(params...);
  }
  // a backend that keeps entry points per signature must be told the same (guest-ABI) signature on release as on registration
  template<typename T> static constexpr uint64_t sz() { if constexpr (std::is_void_v<T>) return 0; else return sizeof(T); }
  template<typename T_Ret, typename... T_Args> static constexpr uint64_t sig_fingerprint() { return (sz<T_Ret>() << 32) | (sizeof...(T_Args) << 24) | (0 + ... + sz<T_Args>()); }
  template<typename T_Ret, typename... T_Args>
  inline T_PointerType impl_register_callback(void* key, void* interceptor)
  {
    for (uint32_t i = 0; i < NSLOTS; i++) {
      if (cb_keys[i] == nullptr) {
        env_log(BM_TAG_CBREG, id, i, sig_fingerprint<T_Ret, T_Args...>());
        cb_keys[i] = key;
        cb_interceptors[i] = interceptor;
        return CB_REP_BASE + 16 * i;
      }
    }
    verif_abort("BM: no free callback entry point");
  }
  static inline std::pair<rlbox_bm*, void*> impl_get_executed_callback_sandbox_and_key()
  {
    return { cur_sandbox, cur_sandbox->cb_keys[cur_slot] };
  }
  template<typename T_Ret, typename... T_Args>
  inline void impl_unregister_callback(void* key)
  {
    for (uint32_t i = 0; i < NSLOTS; i++) {
      if (cb_keys[i] == key) {
        env_log(BM_TAG_CBUNREG, id, i, sig_fingerprint<T_Ret, T_Args...>());
        cb_keys[i] = nullptr;
        cb_interceptors[i] = nullptr;
        break;
      }
    }
  }
};

}
using BM = rlbox::rlbox_bm;
#include "verif_util.hpp"
