// helpers used by kernels (include after rlbox.hpp)
#pragma once
#include <cstring>
// helpers used by kernels ------------------------------------------------------
// build a tainted<T> from raw application-side bits (the kernel's symbolic input)
template<typename T, typename S>
static inline rlbox::tainted<T, S> mk_tainted(uint64_t bits)
{
  rlbox::tainted<T, S> t;
  static_assert(sizeof(t) <= 8);
  std::memcpy(&t, &bits, sizeof(t));
  return t;
}
template<typename T, typename S>
static inline uint64_t raw_bits(const rlbox::tainted<T, S>& t)
{
  uint64_t r = 0;
  static_assert(sizeof(t) <= 8);
  std::memcpy(&r, &t, sizeof(t));
  return r;
}
