// Reflected structs used by several kernel families (rlbox's own reflection macros do the work).
#pragma once
#include "verif_sandbox.hpp"
struct VS24 { long a; int* b; int c; };            // app: 24 bytes, guest (LP32): 12 bytes
#define sandbox_fields_reflection_vlib_class_VS24(f, g, ...) \
  f(long, a, FIELD_NORMAL, ##__VA_ARGS__) g()                \
  f(int*, b, FIELD_NORMAL, ##__VA_ARGS__) g()                \
  f(int, c, FIELD_NORMAL, ##__VA_ARGS__) g()
#define sandbox_fields_reflection_vlib_allClasses(f, ...) f(VS24, vlib, ##__VA_ARGS__)
rlbox_load_structs_from_library(vlib);
