// Model sandbox backends with a foreign (LP32-like) ABI and a real region
// predicate. No rlbox code is copied here: these classes only implement the
// backend plugin contract that rlbox_sandbox<T_Sbx> expects (compare
// rlbox_noop_sandbox.hpp). See DESIGN.md 3.1.
#pragma once
#include "verif_env.hpp"
#include <utility>
#include <type_traits>
#ifndef RLBOX_USE_STATIC_CALLS
#  define RLBOX_USE_STATIC_CALLS() rlbox_verif_sandbox_lookup_symbol
#endif
#define rlbox_verif_sandbox_lookup_symbol(func_name) reinterpret_cast<void*>(&func_name)
#include "rlbox.hpp"

namespace rlbox {

enum : uint32_t {
  TAG_MALLOC = 0x100,  // env_u64: allocator result (arbitrary guest representation)
  TAG_CREATE = 0x101,  // env_u64: backend create result (BM)
  TAG_FREE = 0x102,    // env_log: impl_free_in_sandbox(rep)
  TAG_LOOKUP = 0x103,
};

// Single-instance model backend: one live sandbox region [g_base, g_base+SIZE).
// PT = guest pointer representation, LOG = log2 of region size.
// Guest ABI: short=int16, int=int32 (int16 when PT is 8/16 bit? no: kept int32), long=int32,
// long long=int64, pointer=PT.
template<typename PT, unsigned LOG>
class rlbox_vsbx
{
public:
  using T_LongLongType = int64_t;
  using T_LongType = int32_t;
  using T_IntType = int32_t;
  using T_PointerType = PT;
  using T_ShortType = int16_t;
  static constexpr uint64_t SIZE = 1ull << LOG;
  static constexpr uint64_t MASK = ~(SIZE - 1);
  static inline uintptr_t g_base = 0;
  uintptr_t base = 0;

  static inline bool in_region(const void* p)
  {
    auto a = reinterpret_cast<uintptr_t>(p);
    return a >= g_base && a - g_base < SIZE;
  }

protected:
  inline void impl_create_sandbox(uintptr_t b)
  {
    base = b;
    g_base = b;
  }
  inline void impl_destroy_sandbox() {}

  template<typename T>
  inline void* impl_get_unsandboxed_pointer(T_PointerType p) const
  {
    return reinterpret_cast<void*>(base + static_cast<uintptr_t>(p));
  }
  template<typename T>
  inline T_PointerType impl_get_sandboxed_pointer(const void* p) const
  {
    return static_cast<T_PointerType>(reinterpret_cast<uintptr_t>(p) - base);
  }
  // context-free forms: base recovered from the example address (region is SIZE-aligned)
  template<typename T, typename T_Finder>
  static inline void* impl_get_unsandboxed_pointer_no_ctx(T_PointerType p,
                                                          const void* ex,
                                                          T_Finder)
  {
    return reinterpret_cast<void*>((MASK & reinterpret_cast<uintptr_t>(ex)) +
                                   static_cast<uintptr_t>(p));
  }
  template<typename T, typename T_Finder>
  static inline T_PointerType impl_get_sandboxed_pointer_no_ctx(const void* p,
                                                                const void* ex,
                                                                T_Finder)
  {
    return static_cast<T_PointerType>(reinterpret_cast<uintptr_t>(p) -
                                      (MASK & reinterpret_cast<uintptr_t>(ex)));
  }
  inline T_PointerType impl_malloc_in_sandbox(size_t sz)
  {
    env_log(TAG_MALLOC, sz, 0, 0);
    return static_cast<T_PointerType>(env_u64(TAG_MALLOC));
  }
  inline void impl_free_in_sandbox(T_PointerType p) { env_log(TAG_FREE, (uint64_t)p, 0, 0); }

  // exact predicates w.r.t. the live region
  static inline bool impl_is_in_same_sandbox(const void* p1, const void* p2)
  {
    return in_region(p1) == in_region(p2);
  }
  inline bool impl_is_pointer_in_sandbox_memory(const void* p)
  {
    auto a = reinterpret_cast<uintptr_t>(p);
    return a >= base && a - base < SIZE;
  }
  inline bool impl_is_pointer_in_app_memory(const void* p)
  {
    return !impl_is_pointer_in_sandbox_memory(p);
  }
  inline size_t impl_get_total_memory() { return SIZE; }
  inline void* impl_get_memory_location() { return reinterpret_cast<void*>(base); }
  void* impl_lookup_symbol(const char*) { return nullptr; }

  template<typename T, typename T_Converted, typename... T_Args>
  auto impl_invoke_with_func_ptr(T_Converted* func_ptr, T_Args&&... params)
  {
    return (*func_ptr)(params...);
  }
  template<typename T_Ret, typename... T_Args>
  inline T_PointerType impl_register_callback(void*, void*)
  {
    return 0;
  }
  static inline std::pair<rlbox_vsbx*, void*> impl_get_executed_callback_sandbox_and_key()
  {
    return { nullptr, nullptr };
  }
  template<typename T_Ret, typename... T_Args>
  inline void impl_unregister_callback(void*)
  {}
};

}

namespace rlbox {
enum : uint32_t { TAG_GRANT = 0x110, TAG_DENY = 0x111 };
// same region model, but the backend can also take over / hand back whole buffers (grant/deny access)
template<typename PT, unsigned LOG>
class rlbox_vsbx_grant : public rlbox_vsbx<PT, LOG>
{
public:
  using can_grant_deny_access = void;
protected:
  template<typename T>
  inline T* impl_grant_access(T* src, size_t num, bool& success)
  {
    env_log(TAG_GRANT, (uint64_t)src, num, sizeof(T));
    success = env_u64(TAG_GRANT) != 0;
    // a refusing backend may hand back the unchanged source pointer (success is reported separately): the core must not wrap it
    return success ? reinterpret_cast<T*>(this->base + (env_u64(TAG_GRANT) & (rlbox_vsbx<PT, LOG>::SIZE - 1))) : src;
  }
  template<typename T>
  inline T* impl_deny_access(T* src, size_t num, bool& success)
  {
    env_log(TAG_DENY, (uint64_t)src, num, sizeof(T));
    success = env_u64(TAG_DENY) != 0;
    return src;
  }
};
}
namespace rlbox {
// B32S: 32-bit representations but only 2^MEMLOG bytes of memory at the start of a 2^32-aligned window; like
// mask-based real backends, impl_is_in_same_sandbox compares windows (coarse) while
// impl_is_pointer_in_sandbox_memory is exact. Used only for kernels whose correctness rests on the *exact*
// membership test (checked entry points, allocator results) - pointer translation itself may leave the memory.
template<unsigned MEMLOG>
class rlbox_vsbx_small : public rlbox_vsbx<uint32_t, 32>
{
public:
  static constexpr uint64_t MEM = 1ull << MEMLOG;
protected:
  static inline bool impl_is_in_same_sandbox(const void* p1, const void* p2)
  {
    return (reinterpret_cast<uintptr_t>(p1) >> 32) == (reinterpret_cast<uintptr_t>(p2) >> 32);
  }
  inline bool impl_is_pointer_in_sandbox_memory(const void* p)
  {
    auto a = reinterpret_cast<uintptr_t>(p);
    return a >= this->base && a - this->base < MEM;
  }
  inline bool impl_is_pointer_in_app_memory(const void* p) { return !impl_is_pointer_in_sandbox_memory(p); }
  inline size_t impl_get_total_memory() { return MEM; }
};
}
namespace rlbox {
// B32Z: guard zones around the region are neither sandbox memory nor application memory (the two membership
// predicates of the plugin interface are not complements)
class rlbox_vsbx_guardzone : public rlbox_vsbx<uint32_t, 32>
{
public:
  static constexpr uintptr_t GUARD = 0x10000;
  inline bool impl_is_pointer_in_app_memory(const void* p)
  {
    auto a = reinterpret_cast<uintptr_t>(p);
    return a < this->base - GUARD || a - this->base >= SIZE + GUARD;
  }
};
}
namespace rlbox {
// B8V: a 256-byte window whose usable memory is chosen per sandbox at creation (two sandboxes of the type may differ):
// anything derived from get_total_memory() - such as the app-pointer token limit - is per sandbox
class rlbox_vsbx_var : public rlbox_vsbx<uint8_t, 8>
{
public:
  size_t total = 256;
  inline void impl_create_sandbox(uintptr_t b, uint32_t t) { rlbox_vsbx<uint8_t, 8>::impl_create_sandbox(b); total = t; }
  inline size_t impl_get_total_memory() { return total; }
};
}
namespace rlbox {
// B32W: a guest ABI whose int/short are WIDER than the application's (int = 64 bit): values read from sandbox
// memory must be range-checked when they are narrowed to the application type
class rlbox_vsbx_wide : public rlbox_vsbx<uint32_t, 32>
{
public:
  using T_IntType = int64_t;
  using T_ShortType = int32_t;
};
}
namespace rlbox {
// B32L: the backend only has memory while it is live (between impl_create_sandbox and impl_destroy_sandbox):
// a sandbox object that was never created, or that has been destroyed, contains no address at all
class rlbox_vsbx_life : public rlbox_vsbx<uint32_t, 32>
{
public:
  bool live = false;
protected:
  inline void impl_create_sandbox(uintptr_t b) { rlbox_vsbx<uint32_t, 32>::impl_create_sandbox(b); live = true; }
  inline void impl_destroy_sandbox() { live = false; }
  inline bool impl_is_pointer_in_sandbox_memory(const void* p)
  {
    auto a = reinterpret_cast<uintptr_t>(p);
    return live && a >= this->base && a - this->base < SIZE;
  }
  inline bool impl_is_pointer_in_app_memory(const void* p) { return !impl_is_pointer_in_sandbox_memory(p); }
};
}
namespace rlbox {
// B64M: host-width representations that the backend masks into the region when it translates them (as a
// mask-based 64-bit backend does): whatever 64 bits the guest writes, translation lands inside the sandbox
class rlbox_vsbx_mask64 : public rlbox_vsbx<uint64_t, 32>
{
protected:
  template<typename T>
  inline void* impl_get_unsandboxed_pointer(T_PointerType p) const
  {
    return reinterpret_cast<void*>(this->base + static_cast<uintptr_t>(p & (SIZE - 1)));
  }
  template<typename T, typename T_Finder>
  static inline void* impl_get_unsandboxed_pointer_no_ctx(T_PointerType p, const void* ex, T_Finder)
  {
    return reinterpret_cast<void*>((MASK & reinterpret_cast<uintptr_t>(ex)) + static_cast<uintptr_t>(p & (SIZE - 1)));
  }
};
}
using B64M = rlbox::rlbox_vsbx_mask64;
using B32L = rlbox::rlbox_vsbx_life;
using B32W = rlbox::rlbox_vsbx_wide;
using B8V = rlbox::rlbox_vsbx_var;
using B32Z = rlbox::rlbox_vsbx_guardzone;
using B32 = rlbox::rlbox_vsbx<uint32_t, 32>;
using B64 = rlbox::rlbox_vsbx<uint64_t, 32>;   // host-width, non-identity representation (offset from base)
using B32S = rlbox::rlbox_vsbx_small<16>;
using B32G = rlbox::rlbox_vsbx_grant<uint32_t, 32>;
using B16 = rlbox::rlbox_vsbx<uint16_t, 16>;
using B8 = rlbox::rlbox_vsbx<uint8_t, 8>;

#include "verif_util.hpp"
