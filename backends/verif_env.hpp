// Environment interface shared by every verification kernel (see DESIGN.md 3.4).
// Three externals are the only I/O a kernel has besides its integer arguments,
// return value and the memory it is handed:
//   verif_abort  - RLBOX_CUSTOM_ABORT target; ends the path ("the operation aborts")
//   env_u64(tag) - a nondeterministic 64-bit input (guest results, allocator results, flags)
//   env_log(...) - an observation (what a guest function / verifier / hook saw)
// In the symbolic engine they are stubs; in the native replay build they are
// defined by native/driver.cpp.
#pragma once
#include <cstddef>
#include <cstdint>
extern "C" {
[[noreturn]] void verif_abort(const char* msg);
uint64_t env_u64(uint32_t tag);
void env_log(uint32_t tag, uint64_t a, uint64_t b, uint64_t c);
}
#ifndef RLBOX_CUSTOM_ABORT
#  define RLBOX_CUSTOM_ABORT(msg) verif_abort(msg)
#endif
#ifndef RLBOX_SINGLE_THREADED_INVOCATIONS
#  define RLBOX_SINGLE_THREADED_INVOCATIONS
#endif
#define K extern "C" __attribute__((noinline))
