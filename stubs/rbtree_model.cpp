// Unbalanced-BST models of the four out-of-line libstdc++ red-black-tree primitives.
#include <map>
namespace std {
_Rb_tree_node_base* _Rb_tree_increment(_Rb_tree_node_base* x) throw() {
  if (x->_M_right != 0) { x = x->_M_right; while (x->_M_left != 0) x = x->_M_left; }
  else { _Rb_tree_node_base* y = x->_M_parent; while (x == y->_M_right) { x = y; y = y->_M_parent; } if (x->_M_right != y) x = y; }
  return x;
}
const _Rb_tree_node_base* _Rb_tree_increment(const _Rb_tree_node_base* x) throw() { return _Rb_tree_increment(const_cast<_Rb_tree_node_base*>(x)); }
_Rb_tree_node_base* _Rb_tree_decrement(_Rb_tree_node_base* x) throw() {
  if (x->_M_color == _S_red && x->_M_parent->_M_parent == x) x = x->_M_right;
  else if (x->_M_left != 0) { _Rb_tree_node_base* y = x->_M_left; while (y->_M_right != 0) y = y->_M_right; x = y; }
  else { _Rb_tree_node_base* y = x->_M_parent; while (x == y->_M_left) { x = y; y = y->_M_parent; } x = y; }
  return x;
}
const _Rb_tree_node_base* _Rb_tree_decrement(const _Rb_tree_node_base* x) throw() { return _Rb_tree_decrement(const_cast<_Rb_tree_node_base*>(x)); }
void _Rb_tree_insert_and_rebalance(const bool insert_left, _Rb_tree_node_base* x, _Rb_tree_node_base* p, _Rb_tree_node_base& header) throw() {
  x->_M_parent = p; x->_M_left = 0; x->_M_right = 0; x->_M_color = _S_black;
  if (insert_left) { p->_M_left = x; if (p == &header) { header._M_parent = x; header._M_right = x; } else if (p == header._M_left) header._M_left = x; }
  else { p->_M_right = x; if (p == header._M_right) header._M_right = x; }
}
_Rb_tree_node_base* _Rb_tree_rebalance_for_erase(_Rb_tree_node_base* const z, _Rb_tree_node_base& header) throw() {
  _Rb_tree_node_base*& root = header._M_parent; _Rb_tree_node_base*& leftmost = header._M_left; _Rb_tree_node_base*& rightmost = header._M_right;
  _Rb_tree_node_base* y = z; _Rb_tree_node_base* x = 0;
  if (y->_M_left == 0) x = y->_M_right; else if (y->_M_right == 0) x = y->_M_left;
  else { y = y->_M_right; while (y->_M_left != 0) y = y->_M_left; x = y->_M_right; }
  if (y != z) {
    z->_M_left->_M_parent = y; y->_M_left = z->_M_left;
    if (y != z->_M_right) { if (x) x->_M_parent = y->_M_parent; y->_M_parent->_M_left = x; y->_M_right = z->_M_right; z->_M_right->_M_parent = y; }
    if (root == z) root = y; else if (z->_M_parent->_M_left == z) z->_M_parent->_M_left = y; else z->_M_parent->_M_right = y;
    y->_M_parent = z->_M_parent; y = z;
  } else {
    if (x) x->_M_parent = y->_M_parent;
    if (root == z) root = x; else if (z->_M_parent->_M_left == z) z->_M_parent->_M_left = x; else z->_M_parent->_M_right = x;
    if (leftmost == z) { if (z->_M_right == 0) leftmost = z->_M_parent; else { _Rb_tree_node_base* m = x; while (m->_M_left) m = m->_M_left; leftmost = m; } }
    if (rightmost == z) { if (z->_M_left == 0) rightmost = z->_M_parent; else { _Rb_tree_node_base* m = x; while (m->_M_right) m = m->_M_right; rightmost = m; } }
  }
  return y;
}
}
