#pragma once
#include "rlbox.hpp"
#include "rlbox_dylib_sandbox.hpp"
