#pragma once
#include "rlbox.hpp"
#include "rlbox_noop_sandbox.hpp"
