"""C12 - a callback call runs exactly the registered function with faithful arguments."""
import z3
from specs.common import *  # noqa: F401,F403
from specs import common as C
import symex

META = {
    "level": "model_checking",
    "bounds": {
        "quick": "foreign-ABI model backend BM, two live sandboxes: callbacks long(long), int*(int*), opaque long(long), void(short,unsigned long); 4 "
                 "register/unregister histories (slot reuse, re-registration, overwrite) x 3 entry points, argument and result values symbolic; bundled "
                 "noop and dylib backends (dlopen/dlsym stubbed, by-name lookup through the real std::map<std::string,..>) in both TLS configurations: 5 call trees (nested invoke->callback->invoke(other sandbox)->callback, two callbacks per "
                 "invocation, slot reuse) with symbolic argument",
        "thorough": "same",
    },
    "outside": "nesting depth > 3; "
               "more than 4 simultaneously registered callbacks per sandbox",
    "assumptions": ["guest code is modelled by stubs that call the entry point handles they are given"],
}
SIZE = 1 << 32


def conc(v):
    return v if isinstance(v, int) else symex.simp(v).as_long()


def bv(v, bits=64):
    return BV(v, bits) if isinstance(v, int) else v


def bm_bases(ctx):
    b0, b1 = bm_two_bases(ctx)
    return b0, b1


def bm_two_bases(ctx):
    """two disjoint 4 GiB regions at page-aligned (not size-aligned) bases"""
    b0 = ctx.sandbox_base(32, "b0", aligned=False)
    b1 = ctx.sandbox_base(32, "b1", aligned=False)
    sz = BV(1 << 32, 64)
    ctx.assume(z3.Or(z3.UGE(b0, b1 + sz), z3.UGE(b1, b0 + sz)))
    return b0, b1


def logs(q, tag):
    return [e for e in (q.user.get("log") or []) if e[0] == tag]


def envs(q, tag):
    return [v for (t, v) in (q.user.get("env") or []) if t == tag]


def check_bm_long(ctx, k, opaque=False):
    b0, b1 = bm_bases(ctx)
    x = ctx.sym("x", 32)
    if opaque:
        paths = ctx.run(k, [b0, b1, x])
    else:
        hist = ctx.sym("hist", 32)
        which = ctx.sym("which", 32)
        ctx.assume(z3.ULE(hist, 5), z3.ULE(which, 2))
        paths = ctx.run(k, [b0, b1, hist, which, x])
    nb = 0
    for q in paths:
        if q.status not in ("ret", "abort"):
            continue
        r, m = ctx.eng.check_sat(q.pc)
        if r != "sat":
            continue
        if opaque:
            exp_id, exp_sb = 11, 1
        else:
            h, w = mval(m, hist), mval(m, which)
            exp_id = {0: (2 if h == 1 else 0), 1: (3 if h == 3 else 1), 2: 1}[w]
            exp_sb = 2 if w == 2 else 1
        body = logs(q, 20)
        addr = logs(q, 24)
        rv = envs(q, 21)
        if len(body) != 1 or len(addr) != 1 or len(rv) != 1:
            ctx.fail(q, "the callback body ran %d times (expected exactly once)" % len(body))
            continue
        nb += 1
        R = sext(rv[0], 128)
        fits = z3.And(R >= -(1 << 31), R < (1 << 31))
        ok_body = z3.And(bv(body[0][1]) == exp_id, bv(body[0][2]) == bv(addr[0][exp_sb]), bv(body[0][3]) == sext(x, 64))
        if q.status == "ret":
            g = logs(q, 23)
            ctx.require(q, z3.And(ok_body, fits, z3.BoolVal(len(g) == 1), bv(g[0][1]) == rv[0] if g else z3.BoolVal(False), q.ret == rv[0]),
                        "the function registered for that entry point ran once with its own sandbox and the converted argument; the guest received the converted result")
        else:
            ctx.require(q, z3.And(ok_body, z3.Not(fits)), "the call aborts only when the callback's result is not representable in the guest type")
    ctx.only(paths, "ret", "abort")
    ctx.expect(paths, ret=1, abort=1)
    ctx.validate_paths(paths, 8)
    if nb == 0:
        ctx.inconclusive.append("no path reached a callback body")


def check_bm_ptr(ctx):
    b0, b1 = bm_bases(ctx)
    x = ctx.sym("x", 32)
    paths = ctx.run("k_bm_cb_ptr", [b0, b1, x])
    for q in paths:
        if q.status != "ret":
            continue
        body = logs(q, 20)
        addr = logs(q, 24)
        rv = envs(q, 22)
        if len(body) != 1 or len(rv) != 1:
            ctx.fail(q, "the callback body ran %d times" % len(body))
            continue
        e = rv[0]
        valid = z3.Or(e == 0, z3.And(z3.UGT(e, b0), z3.ULT(e - b0, BV(SIZE, 64))))
        want_arg = z3.If(x == 0, BV(0, 64), b0 + zext(x, 64))
        g = logs(q, 23)
        ctx.require(q, z3.Implies(valid, z3.And(bv(body[0][1]) == 10, bv(body[0][2]) == bv(addr[0][1]), bv(body[0][3]) == want_arg,
                                                bv(g[0][1]) == z3.If(e == 0, BV(0, 64), zext(z3.Extract(31, 0, e - b0), 64)), q.ret == e)),
                    "pointer argument and result are translated relative to the executing sandbox; null stays null")
    ctx.only(paths, "ret")
    ctx.expect(paths, ret=1)


def check_bm_fnptr(ctx):
    ctx.eng.max_strlen = 64
    b0, b1 = bm_bases(ctx)
    x = ctx.sym("x", 32)
    paths = ctx.run("k_bm_cb_fnptr", [b0, b1, x])
    for q in paths:
        if q.status != "ret":
            continue
        body = logs(q, 20)
        addr = logs(q, 24)
        g = logs(q, 23)
        if len(body) != 1 or len(g) != 1:
            ctx.fail(q, "the callback body ran %d times" % len(body))
            continue
        ctx.require(q, z3.And(bv(body[0][1]) == 13, bv(body[0][2]) == bv(addr[0][1]), bv(body[0][3]) == sext(x, 64), bv(g[0][1]) == 0x140, q.ret == 0x140),
                    "a function-pointer result is converted to the backend's function representation (the table handle), not translated like a data pointer")
    ctx.only(paths, "ret")
    ctx.expect(paths, ret=1)


def check_bm_stored(ctx):
    b0, b1 = bm_bases(ctx)
    cell = ctx.sym("cell", 64)
    x = ctx.sym("x", 32)
    ctx.assume(z3.UGE(cell, b0), z3.ULE(cell - b0, BV((1 << 32) - 4, 64)))
    paths = ctx.run("k_bm_cb_stored", [b0, b1, cell, x])
    for q in paths:
        if q.status != "ret":
            if q.status == "abort" and len(logs(q, 20)) == 1 and "Over/Underflow" in (q.info or ""):
                continue      # the callback ran; its (arbitrary) result does not fit the guest's long: a legitimate refusal
            ctx.fail(q, "storing a callback owner into sandbox memory and calling through the slot ended %s (%s)" % (q.status, q.info))
            continue
        l25 = logs(q, 25)
        body = logs(q, 20)
        ctx.require(q, z3.And(z3.BoolVal(len(l25) == 1 and len(body) == 1), bv(l25[0][1]) == bv(l25[0][2]), bv(body[0][1]) == 1, bv(body[0][3]) == sext(x, 64)) if l25 and body else z3.BoolVal(False),
                    "the slot holds the owner's entry point (as handed to the guest for arguments) and a call through it runs exactly the stored callback")
    ctx.expect(paths, ret=1)


def check_bm_signature(ctx):
    b0, b1 = bm_bases(ctx)
    paths = ctx.run("k_bm_cb_signature", [b0, b1])
    for q in paths:
        if q.status != "ret":
            ctx.fail(q, "ended %s %s" % (q.status, q.info))
            continue
        lg = q.user.get("log") or []
        reg = {conc(e[2]): conc(e[3]) for e in lg if e[0] == 0x206}
        unreg = {conc(e[2]): conc(e[3]) for e in lg if e[0] == 0x207}
        ctx.require(q, z3.BoolVal(len(reg) == 3 and reg == unreg),
                    "every released registration is announced to the backend with the signature it was registered with (slots %s vs %s)" % (reg, unreg))
    ctx.only(paths, "ret")
    ctx.expect(paths, ret=1)


def check_bm_void(ctx):
    b0, b1 = bm_bases(ctx)
    a = ctx.sym("a", 16)
    b = ctx.sym("b", 32)
    paths = ctx.run("k_bm_cb_void", [b0, b1, a, b])
    for q in paths:
        if q.status != "ret":
            continue
        body = logs(q, 20)
        addr = logs(q, 24)
        if len(body) != 1:
            ctx.fail(q, "the callback body ran %d times" % len(body))
            continue
        ctx.require(q, z3.And(bv(body[0][1]) == 12, bv(body[0][2]) == bv(addr[0][1]), bv(body[0][3]) == z3.Concat(BV(0, 16), a, b)),
                    "every argument is delivered converted, in order")
    ctx.only(paths, "ret")
    ctx.expect(paths, ret=1)


def check_nested(ctx):
    ctx.eng.max_strlen = 64          # symbol names are concrete strings
    shape = ctx.sym("shape", 32)
    x = ctx.sym("x", 32)
    ctx.assume(z3.ULE(shape, 7))
    paths = ctx.run("k_nested", [shape, x])
    for q in paths:
        if q.status != "ret":
            continue
        r, m = ctx.eng.check_sat(q.pc)
        sh = mval(m, shape)
        addr = logs(q, 24)[0]
        A, B = bv(addr[1]), bv(addr[2])
        exp = {0: [(1, A, 0)], 1: [(3, A, 0), (0, A, 1)], 2: [(50, A, 0), (8, B, 5), (1, A, 1)], 3: [(50, A, 0), (8, B, 5), (4, A, 1)],
               4: [(8, B, 0), (7, B, 1)], 5: [(0, A, 0)], 6: [(0, A, 0), (1, A, 1)], 7: [(60, A, 0), (1, A, 1)]}[sh]
        res = {0: lambda v: v + 1000, 1: lambda v: (v + 3000) + (v + 1), 2: lambda v: (v + 5 + 8000 + 1) + (v + 1 + 1000),
               3: lambda v: (v + 5 + 8000 + 1) + (v + 1 + 4000), 4: lambda v: (v + 8000) + (v + 1 + 7000), 5: lambda v: v, 6: lambda v: v + (v + 1 + 1000), 7: lambda v: (v + 60000) + (v + 1 + 1000)}[sh](x)
        body = logs(q, 20)
        if len(body) != len(exp):
            ctx.fail(q, "%d callback bodies ran, expected %d (shape %d)" % (len(body), len(exp), sh))
            continue
        conj = [z3.Extract(31, 0, q.ret) == res]
        for got, (eid, esb, off) in zip(body, exp):
            conj += [bv(got[1]) == eid, bv(got[2]) == esb, z3.Extract(31, 0, bv(got[3])) == x + off]
        ctx.require(q, z3.And(*conj), "each entry point runs exactly its registered function, in order, with the sandbox that is executing (also after a nested "
                                      "visit to another sandbox) and the right argument")
    ctx.only(paths, "ret")
    ctx.expect(paths, ret=8)
    ctx.validate_paths(paths, 8)


NOOP = ('#define RLBOX_USE_STATIC_CALLS() rlbox_noop_sandbox_lookup_symbol\n#define BACKEND_HEADER "C13_noop.hpp"\n'
        '#define NSBX rlbox::rlbox_noop_sandbox\n#define CREATE_SB(sb) sb.create_sandbox()\n')
DYLIB = ('#define BACKEND_HEADER "C13_dylib.hpp"\n#define NSBX rlbox::rlbox_dylib_sandbox\n#define CREATE_SB(sb) sb.create_sandbox("libx.so")\n')
DYLIB_ETLS = '#define RLBOX_EMBEDDER_PROVIDES_TLS_STATIC_VARIABLES\n' + DYLIB
NOOP_ETLS = ('#define RLBOX_EMBEDDER_PROVIDES_TLS_STATIC_VARIABLES\n' + NOOP)


def jobs(tier, seed):
    src = '#include "C12_bm.inc"\n'
    out = [Job("C12_bm_long", src, [dict(name="BM long(long) callbacks", fn=check_bm_long, kw=dict(k="k_bm_cb_long"), unwind=200)]),
           Job("C12_bm_opaque", src, [dict(name="BM opaque callback", fn=check_bm_long, kw=dict(k="k_bm_cb_opaque", opaque=True), unwind=200)], native=False),
           Job("C12_bm_ptr", src, [dict(name="BM pointer callback", fn=check_bm_ptr, unwind=200)], native=False),
           Job("C12_bm_fnptr", src, [dict(name="BM function-pointer result", fn=check_bm_fnptr, unwind=200)], native=False),
           Job("C12_bm_stored", src, [dict(name="BM callback owner stored into sandbox memory", fn=check_bm_stored, unwind=200)], native=False),
           Job("C12_bm_signature", src, [dict(name="BM registration and release use the same guest signature", fn=check_bm_signature, unwind=200)], native=False),
           Job("C12_bm_void", src, [dict(name="BM void callback", fn=check_bm_void, unwind=200)], native=False)]
    # nested visit of a second sandbox that ends by an abort surfaced as an exception and caught inside the first
    # sandbox's callback: the next entry point of the first sandbox still runs its own function with its own sandbox
    from specs import C19
    for nm, pre in (("noop", NOOP), ("dylib", DYLIB)):
        out.append(Job("C12_%s_two_exc" % nm, pre + '#include "C19_two.inc"\n', [dict(name=nm + " two sandboxes, nested visit ends by a caught exception", fn=C19.check_two_tree, unwind=400)],
                       native=False, flags=["-D_GLIBCXX_EXTERN_TEMPLATE=0"]))
    out.append(Job("C12_noop_nested", NOOP + '#include "C12_nested.inc"\n', [dict(name="noop nested call trees", fn=check_nested, unwind=400)]))
    out.append(Job("C12_noop_etls_nested", NOOP_ETLS + '#include "C12_nested.inc"\nRLBOX_NOOP_SANDBOX_STATIC_VARIABLES();\n',
                   [dict(name="noop (embedder TLS) nested call trees", fn=check_nested, unwind=400)], native=False))
    from specs import C13
    out.append(Job("C12_noop_recreate", C13.NOOP + '#include "C13_full.inc"\n', [dict(name="noop dispatch in a second incarnation", fn=C13.check_recreate, unwind=400)], native=False))
    out.append(Job("C12_noop_full_reuse", C13.NOOP + '#include "C13_full.inc"\n', [dict(name="noop: every one of the 64 entry points can be released and reused", fn=C13.check_full_reuse, unwind=400)], native=False))
    out.append(Job("C12_noop_full_exc", C13.NOOP + '#include "C13_full_exc.inc"\n', [dict(name="noop: a refused registration leaves no trace (exceptions)", fn=C13.check_full_exc, unwind=400)],
                   native=False, flags=["-D_GLIBCXX_EXTERN_TEMPLATE=0"]))
    fl = ["-D_GLIBCXX_EXTERN_TEMPLATE=0"]
    out.append(Job("C12_dylib_nested", DYLIB + '#include "C12_nested.inc"\n', [dict(name="dylib nested call trees", fn=check_nested, unwind=400)], native=False, flags=fl))
    out.append(Job("C12_dylib_etls_nested", DYLIB_ETLS + '#include "C12_nested.inc"\nRLBOX_DYLIB_SANDBOX_STATIC_VARIABLES();\n',
                   [dict(name="dylib (embedder TLS) nested call trees", fn=check_nested, unwind=400)], native=False, flags=fl))
    return out
