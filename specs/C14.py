"""C14 - sandbox lifecycle is a strict state machine; the live-sandbox registry is exact."""
import z3
from specs.common import *  # noqa: F401,F403
from specs import common as C
import symex

META = {
    "level": "model_checking",
    "bounds": {
        "quick": "every history of <=3 operations over 13 concrete operations {create s0 (bound to alternating libraries, backend result symbolic), create s1, "
                 "destroy s0/s1, malloc, free (tainted and sandbox-resident pointer), register, unregister, invoke by name, get_app_pointer, example-based pointer translation in s0/s1} on two sandbox "
                 "objects of the multi-instance backend, in lock-step with a reference state machine written from the property text",
        "thorough": "histories of <=4 operations",
    },
    "outside": "three or more sandbox objects; histories longer than the bound (a failed create is inside the claim: it leaves the object "
               "not created, unusable, and creation may be attempted again)",
    "assumptions": ["operation choice per step and the backend's create result are the symbolic inputs"],
}
NOPS = 13
SIZE = 1 << 32


_M = [None]


def conc(v):
    if isinstance(v, int):
        return v
    v = symex.simp(v)
    return v.as_long() if symex.is_conc(v) else mval(_M[0], v)


def check_hist(ctx, depth, first):
    ctx.eng.max_strlen = 64
    b0 = ctx.sandbox_base(32, "b0", aligned=False)
    b1 = ctx.sandbox_base(32, "b1", aligned=False)
    ctx.assume(z3.Or(z3.UGE(b0, b1 + BV(1 << 32, 64)), z3.UGE(b1, b0 + BV(1 << 32, 64))))
    ops = ctx.buffer(depth, name="op")
    for b in ops.init:
        ctx.assume(z3.ULE(b, NOPS - 1))
    ctx.assume(ops.init[0] == first)
    cnt = ctx.sym("cnt", 32)           # number of elements every allocation of the history asks for (0 included)
    ctx.assume(z3.ULE(cnt, 2))
    paths = ctx.run("k_life_hist", [b0, b1, ops, BV(depth, 32), cnt])
    for q in paths:
        r, m = ctx.eng.check_sat(q.pc)
        if r != "sat":
            ctx.inconclusive.append("path model " + r)
            continue
        _M[0] = m
        mem0 = ctx.eng.initial_memory()
        cellrep = [mval(m, z3.Concat(*[z3.Select(mem0, bb + BV(0x80 + j, 64)) for j in reversed(range(4))])) for bb in (b0, b1)]
        seq = [mval(m, b) for b in ops.init]
        creates = [mval(m, v) != 0 for (t, v) in (q.user.get("env") or []) if t == 0x201]
        lg = q.user.get("log") or []
        steps = [e for e in lg if e[0] == 6]
        ctx.obligations += 1
        bad = None
        st = ["N", "N"]          # per sandbox: N not created, C created
        lib = 0                   # library s0 will be bound to at its next create
        curlib = None
        owner = None              # incarnation number of s0 in which o0 registered cb0, or None
        inc = 0
        ci = 0
        dontcare = False
        k = 0
        # walk the log entries in order, grouped per step
        per_step = {}
        cur = []
        for e in lg:
            if e[0] == 6:
                per_step[conc(e[1])] = (cur, e)
                cur = []
            else:
                cur.append(e)
        tail = cur
        for k, op in enumerate(seq):
            done = k in per_step
            side, rec = per_step.get(k, (tail if q.status == "abort" else [], None))
            exp_abort = False
            if op in (0, 1):
                i = op
                if st[i] == "C":
                    exp_abort = True
                elif st[i] == "F":
                    dontcare = True
                    break
                else:
                    if ci >= len(creates):
                        bad = "step %d: create did not consult the backend" % k
                        break
                    ok = creates[ci]
                    ci += 1
                    st[i] = "C" if ok else "N"       # a failed creation leaves the sandbox not created: it may be attempted again
                    if i == 0:
                        curlib = lib
                        lib ^= 1
                        if ok:
                            inc += 1
                    if done and (conc(rec[3]) & 1) != (1 if ok else 0):
                        bad = "step %d: create returned %d, backend said %s" % (k, conc(rec[3]) & 1, ok)
            elif op in (2, 3):
                i = op - 2
                if st[i] != "C":
                    exp_abort = True
                else:
                    st[i] = "N"
            elif op == 4:
                called = any(e[0] == 0x203 for e in side)
                if st[0] == "C":
                    if mval(m, cnt) == 0:
                        if not done and q.status == "abort" and "allocate 0" in (q.info or ""):
                            break    # an empty request on a created sandbox may be refused
                    elif not called:
                        bad = "step %d: malloc on a created sandbox did not reach the backend" % k
                    if not done and q.status == "abort" and "Malloc returned" in (q.info or ""):
                        break    # allocator result rejected: allowed
                else:
                    if called:
                        bad = "step %d: malloc outside the created window reached the backend allocator" % k
                    elif done and conc(rec[3]) != 0:
                        bad = "step %d: malloc outside the created window returned non-null" % k
            elif op == 5:
                called = any(e[0] == 0x204 for e in side)
                if (st[0] == "C") != called:
                    bad = "step %d: free %s the backend although the sandbox is %s" % (k, "reached" if called else "did not reach", st[0])
            elif op == 6:
                if st[0] != "C":
                    exp_abort = True
                elif owner is not None and owner == inc:
                    exp_abort = True      # same function already registered in this incarnation
                else:
                    owner = inc
                    if done and conc(rec[3]) != 0:
                        bad = "step %d: registration did not yield a registered owner" % k
            elif op == 7:
                owner = None
                if done and conc(rec[3]) != 1:
                    bad = "step %d: owner still registered after unregister" % k
            elif op == 8:
                if st[0] == "C":
                    g = [e for e in side if e[0] == 30]
                    want = 0xA if curlib == 0 else 0xB
                    if done and (len(g) != 1 or conc(g[0][1]) != want):
                        bad = "step %d: invoke by name reached %s, expected exactly the current library's function (%x)" % (k, [hex(conc(e[1])) for e in g], want)
                    if not done:
                        bad = "step %d: invoke by name on a created sandbox failed: %s" % (k, q.info)
                else:
                    # invoking while the sandbox is not created is outside the statement: this step may abort or go through,
                    # but it must leave nothing behind for the next incarnation, so the history continues
                    if not done:
                        dontcare = True
                        break
            elif op == 9:
                if st[0] != "C":
                    dontcare = True
                    break
            elif op in (10, 11):
                i = op - 10
                if st[i] != "C" and cellrep[i] != 0:
                    exp_abort = True      # a non-null representation cannot be translated: no live sandbox contains the cell
            elif op == 12:
                called = any(e[0] == 0x204 for e in side)
                if st[0] == "C":
                    if not called:
                        bad = "step %d: free through a sandbox-resident pointer did not reach the backend of a created sandbox" % k
                elif cellrep[0] != 0:
                    exp_abort = True      # cannot even be translated
                    if called:
                        bad = "step %d: free outside the created window reached the backend" % k
                elif called:
                    bad = "step %d: free outside the created window reached the backend" % k
            if bad:
                break
            if exp_abort:
                if done:
                    bad = "step %d (op %d): expected an abort in state %s, but the operation went through" % (k, op, st)
                elif q.status != "abort":
                    bad = "step %d: expected abort, path ended %s" % (k, q.status)
                break
            if not done:
                bad = "step %d (op %d) in state %s: unexpected %s: %s" % (k, op, st, q.status, q.info)
                break
        else:
            if q.status != "ret":
                bad = "all steps fine in the model but the path ended %s: %s (destroying owners/sandbox objects must be harmless)" % (q.status, q.info)
        if dontcare:
            bad = None
        if bad:
            ctx.report(q, {"check": ctx.name, "kernel": "k_life_hist", "violated": bad, "inputs": {"ops": seq, "create_results": creates, "malloc_count": mval(m, cnt)},
                                   "outcome": q.status, "msg": q.info, "replayed": None})
        else:
            ctx.discharged += 1
    ctx.expect(paths)
    ctx.expected_ok = len(paths) > 0
    ctx.validate_paths(paths, 12)


def check_recreate_cb(ctx):
    b0 = ctx.sandbox_base(32, "b0", aligned=False)
    how = ctx.sym("how", 32)
    ctx.assume(z3.ULE(how, 2))
    paths = ctx.run("k_recreate_callback", [b0, how])
    for q in paths:
        lg = q.user.get("log") or []
        if q.status == "ret":
            r = [e for e in lg if e[0] == 9]
            ctx.require(q, z3.BoolVal(bool(r) and r[0][1] == 0), "after destroy+create the same function can be registered again")
        else:
            reached = any(e[0] == 8 for e in lg)
            ctx.require(q, z3.BoolVal(False), "a callback registration of the earlier incarnation is still visible after destroy_sandbox + create_sandbox "
                                              "(%s, re-creation %s)" % (q.info, "reached" if reached else "not reached"),
                        known=[("C14-stale-state-after-destroy", z3.BoolVal(True))])
    ctx.expect(paths)
    ctx.expected_ok = len(paths) >= 3


def check_recreate_sym(ctx):
    ctx.eng.max_strlen = 64
    b0 = ctx.sandbox_base(32, "b0", aligned=False)
    af = ctx.sym("addr_first", 32)
    ctx.assume(z3.ULE(af, 1))
    paths = ctx.run("k_recreate_symbol", [b0, af])
    for q in paths:
        lg = q.user.get("log") or []
        g = [e for e in lg if e[0] == 30]
        a2 = [e for e in lg if e[0] == 32]
        ok = q.status == "ret" and len(g) == 2 and g[0][1] == 0xA and g[1][1] == 0xB and bool(a2) and a2[0][1] == 0x108
        ctx.require(q, z3.BoolVal(ok), "after destroy+create, by-name invocation and function address use the new library, not cached symbol addresses of the "
                                       "earlier incarnation (guest calls %s, address %s, %s)" % ([hex(e[1]) for e in g], [hex(e[1]) for e in a2], q.status),
                    known=[("C14-stale-state-after-destroy", z3.BoolVal(True))])
    ctx.expect(paths)
    ctx.expected_ok = len(paths) >= 2


def check_symbol_between(ctx):
    ctx.eng.max_strlen = 64
    b0 = ctx.sandbox_base(32, "b0", aligned=False)
    how = ctx.sym("how", 32)
    ctx.assume(z3.ULE(how, 1))
    paths = ctx.run("k_symbol_between", [b0, how])
    n = 0
    for q in paths:
        lg = q.user.get("log") or []
        if not [e for e in lg if e[0] == 8]:
            # the misuse between the incarnations was refused (abort): nothing more to require
            ctx.obligations += 1
            ctx.discharged += 1
            continue
        n += 1
        cut = [i for i, e in enumerate(lg) if e[0] == 8][0]
        g = [e for e in lg[cut:] if e[0] == 30]
        a2 = [e for e in lg if e[0] == 32]
        ok = q.status == "ret" and len(g) == 1 and g[0][1] == 0xB and bool(a2) and a2[0][1] == 0x108
        ctx.require(q, z3.BoolVal(ok), "a symbol looked up while the object was not created is not served to the next incarnation: it uses its own library "
                                       "(guest calls %s, address %s, %s)" % ([hex(e[1]) for e in g], [hex(e[1]) for e in a2], q.status))
    if n == 0:
        ctx.inconclusive.append("k_symbol_between: every path refused the lookup between incarnations")
    ctx.expect(paths)
    ctx.expected_ok = True


def check_registry(ctx):
    b0 = ctx.sandbox_base(32, "b0", aligned=False)
    b1 = ctx.sandbox_base(32, "b1", aligned=False)
    ctx.assume(z3.Or(z3.UGE(b0, b1 + BV(1 << 32, 64)), z3.UGE(b1, b0 + BV(1 << 32, 64))))
    order = ctx.sym("order", 32)
    victim = ctx.sym("victim", 32)
    ctx.assume(z3.ULE(order, 1), z3.ULE(victim, 1))
    mem0 = ctx.eng.initial_memory()
    sb = z3.If(victim == 1, b0, b1)
    rep = z3.Concat(*[z3.Select(mem0, sb + BV(0x80 + j, 64)) for j in reversed(range(4))])
    ctx.assume(rep != 0)
    paths = ctx.run("k_registry_exact", [b0, b1, order, victim])
    for q in paths:
        if q.status != "ret":
            ctx.fail(q, "after destroying one sandbox the other one is no longer found / cannot be destroyed (%s)" % q.info)
        else:
            lg = [e for e in q.user["log"] if e[0] == 8]
            ctx.require(q, (lg[0][1] if not isinstance(lg[0][1], int) else BV(lg[0][1], 64)) == sb + zext(rep, 64),
                        "a live sandbox is found from addresses inside its memory, whichever other sandbox was created or destroyed before")
    ctx.expect(paths, ret=4)


def check_create_throw(ctx):
    from specs.C19 import install_exc
    install_exc(ctx.eng)
    b0 = ctx.sandbox_base(32, "b0", aligned=False)
    paths = ctx.run("k_create_throw", [b0])
    seen = set()
    for q in paths:
        lg = q.user.get("log") or []
        t = [e for e in lg if e[0] == 70]
        threw = bool(t) and conc(t[0][1]) == 1
        seen.add(threw)
        if q.status != "ret":
            ctx.fail(q, "after a creation attempt that %s the object could not be %s: %s %s" % ("threw" if threw else "succeeded", "created again and destroyed" if threw else "destroyed", q.status, q.info))
            continue
        r = [e for e in lg if e[0] == 71]
        ctx.require(q, z3.BoolVal((not threw) or (bool(r) and conc(r[0][1]) == 1)), "a creation attempt that failed by throwing leaves the object not created: the next attempt succeeds")
    if seen != {True, False}:
        ctx.inconclusive.append("k_create_throw: did not see both a successful and a throwing creation")
    ctx.expect(paths, ret=2)


def check_double_create(ctx):
    from specs.C19 import install_exc
    install_exc(ctx.eng)
    b0 = ctx.sandbox_base(32, "b0", aligned=False)
    paths = ctx.run("k_double_create", [b0])
    nret = 0
    for q in paths:
        lg = q.user.get("log") or []
        if q.status == "abort" and "Malloc returned" in (q.info or ""):
            continue     # the symbolic allocator result was rejected: allowed
        if q.status != "ret":
            ctx.fail(q, "after a refused second create_sandbox the sandbox is no longer usable / destroyable: %s %s" % (q.status, q.info))
            continue
        nret += 1
        t = [e for e in lg if e[0] == 73]
        called = any(e[0] == 0x203 for e in lg)
        ctx.require(q, z3.BoolVal(bool(t) and conc(t[0][1]) == 1 and called),
                    "the second create is refused and the sandbox stays created: allocation still reaches the backend and destroy succeeds")
    if nret == 0:
        ctx.inconclusive.append("k_double_create: no returning path")
    ctx.expect(paths)
    ctx.expected_ok = True


def jobs(tier, seed):
    depth = 3 if tier == "quick" else 4
    src = '#include "C14_hist.inc"\n'
    fl = ["-D_GLIBCXX_EXTERN_TEMPLATE=0"]
    extra = [Job("C14_registry", src, [dict(name="registry exactness with two sandboxes", fn=check_registry, unwind=400)], native=False, flags=fl),
             Job("C14_recreate_cb", src, [dict(name="re-creation: callback registrations", fn=check_recreate_cb, unwind=400)], native=False, flags=fl),
             Job("C14_recreate_sym", src, [dict(name="re-creation: cached symbol addresses", fn=check_recreate_sym, unwind=400),
                                           dict(name="re-creation: symbols looked up between incarnations", fn=check_symbol_between, unwind=400)], native=False, flags=fl)]
    from specs import C13
    extra.append(Job("C14_create_throw", '#include "C14_exc.inc"\n', [dict(name="creation that fails by throwing", fn=check_create_throw, unwind=400),
                                                                       dict(name="refused second create leaves the sandbox created", fn=check_double_create, unwind=400)], native=False, flags=fl))
    extra.append(Job("C14_stale_distance", C13.NOOP + '#include "C13_full.inc"\n', [dict(name="noop: owner of an earlier incarnation at any distance", fn=C13.check_stale_distance, unwind=400)], native=False))
    extra.append(Job("C14_outside_window_exc", C13.NOOP + '#include "C13_full_exc.inc"\n',
                     [dict(name="registration outside the created window leaves nothing for the next incarnation (exceptions)", fn=C13.check_refused_exc, kw=dict(k="k_cb_outside_window_exc", nvals=2), unwind=400)],
                     native=False, flags=["-D_GLIBCXX_EXTERN_TEMPLATE=0"]))
    extra.append(Job("C14_noop_recreate", C13.NOOP + '#include "C13_full.inc"\n', [dict(name="noop second incarnation (callbacks)", fn=C13.check_recreate, unwind=400)], native=False))
    extra.append(Job("C14_dylib_recreate", C13.DYLIB + '#include "C13_full.inc"\n', [dict(name="dylib second incarnation (callbacks)", fn=C13.check_recreate, unwind=400)],
                     native=False, flags=fl))
    return extra + [Job("C14_hist_%d" % f, src, [dict(name="lifecycle histories depth %d first op %d" % (depth, f), fn=check_hist, kw=dict(depth=depth, first=f), unwind=400)],
                max_paths=400000, flags=fl) for f in range(NOPS)]
