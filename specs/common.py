"""Shared tables/helpers for the property specs."""
import os
import sys
import z3

sys.path.insert(0, os.path.join(os.path.dirname(os.path.abspath(__file__)), "..", "engine"))
from fw import Job, BV, ext, sext, zext, mval, Inconclusive  # noqa: E402,F401


class IT:
    """An integer C++ type on the host (x86-64 LP64) and its size under the model guest ABI (LP32-like)."""

    def __init__(self, tag, cxx, bits, signed, gbits=None):
        self.tag = tag
        self.cxx = cxx
        self.bits = bits
        self.signed = signed
        self.gbits = gbits if gbits is not None else bits  # size under B32/B16/B8 guest ABI

    @property
    def min(self):
        return -(1 << (self.bits - 1)) if self.signed else 0

    @property
    def max(self):
        return (1 << (self.bits - 1)) - 1 if self.signed else (1 << self.bits) - 1

    @property
    def gmin(self):
        return -(1 << (self.gbits - 1)) if self.signed else 0

    @property
    def gmax(self):
        return (1 << (self.gbits - 1)) - 1 if self.signed else (1 << self.gbits) - 1


# standard integer types; gbits = width under the model backends (long -> 32)
SCHAR = IT("schar", "signed char", 8, True)
UCHAR = IT("uchar", "unsigned char", 8, False)
CHAR = IT("char", "char", 8, True)
SHORT = IT("short", "short", 16, True)
USHORT = IT("ushort", "unsigned short", 16, False)
INT = IT("int", "int", 32, True)
UINT = IT("uint", "unsigned int", 32, False)
LONG = IT("long", "long", 64, True, 32)
ULONG = IT("ulong", "unsigned long", 64, False, 32)
LLONG = IT("llong", "long long", 64, True)
ULLONG = IT("ullong", "unsigned long long", 64, False)
C16 = IT("c16", "char16_t", 16, False)
C32 = IT("c32", "char32_t", 32, False)
WCHAR = IT("wchar", "wchar_t", 32, True)
BOOL = IT("bool", "bool", 1, False)

STD_INTS = [SCHAR, UCHAR, CHAR, SHORT, USHORT, INT, UINT, LONG, ULONG, LLONG, ULLONG]
ALL_INTS = STD_INTS + [C16, C32, WCHAR]
# types a tainted<> can carry under the model backends (wchar_t has no guest mapping on Linux)
TAINTABLE_INTS = STD_INTS + [C16, C32]

# fixed-width aliases for conversion pair tables
FW = [IT("i8", "int8_t", 8, True), IT("u8", "uint8_t", 8, False), IT("i16", "int16_t", 16, True),
      IT("u16", "uint16_t", 16, False), IT("i32", "int32_t", 32, True), IT("u32", "uint32_t", 32, False),
      IT("i64", "int64_t", 64, True), IT("u64", "uint64_t", 64, False)]

PRELUDE = '#include "verif_sandbox.hpp"\nusing namespace rlbox;\n'
# kernels that construct an rlbox_sandbox object need std::map's out-of-line tree primitives
PRELUDE_SB = PRELUDE + '#include "rbtree_model.cpp"\n'


def boundary_values(bits, extra=()):
    vals = {0, 1, 2, (1 << bits) - 1, (1 << bits) - 2, 1 << (bits - 1), (1 << (bits - 1)) - 1, (1 << (bits - 1)) + 1}
    for b in (7, 8, 15, 16, 31, 32, 63):
        if b < bits:
            vals |= {1 << b, (1 << b) - 1, (1 << b) + 1, (1 << bits) - (1 << b), (1 << bits) - (1 << b) - 1,
                     (1 << bits) - (1 << b) + 1}
    vals |= {v & ((1 << bits) - 1) for v in extra}
    return sorted(v for v in vals if 0 <= v < (1 << bits))


def chunks(lst, n):
    n = max(1, n)
    k = (len(lst) + n - 1) // n
    return [lst[i:i + k] for i in range(0, len(lst), k)] if lst else []
