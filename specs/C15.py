"""C15 - app-pointer tokens are non-zero, bounded, unique and resolve to their pointer."""
import z3
from specs.common import *  # noqa: F401,F403
from specs import common as C
import symex

META = {
    "level": "model_checking",
    "bounds": {
        "quick": "inductive step on app_pointer_map<uint8_t> (std::map model): arbitrary table state satisfying the invariant, arbitrary limit<=12, one of "
                 "register/release/lookup with arbitrary arguments, plus the constructor as base case; owner objects: all histories of <=3 operations "
                 "over 11 concrete operations on 3 owners with a 3-token space (real std::map)",
        "thorough": "limit<=40; owner histories of <=4 operations",
    },
    "outside": "limits above the bound (the code depends on the limit only through loop trip counts); 32-/64-bit token types (same template); "
               "owner histories longer than the bound",
    "assumptions": ["std::map is replaced by the total-function model stubs/mapmodel/map for the inductive step; the owner-history kernels run the real container",
                    "invariant I(limit): key 0 present, presence flags are 0/1, no present key above limit, cursor in [1, limit+1]; limit fixed per table"],
}
M = 0x600000000000          # address of the table object (raw-memory tier, fully symbolic content)
OFF_SLOTS = 256
MAP_SIZE = 256 + 16 * 256     # size of the std::map model object
LAY = {"map": 0, "cnt": MAP_SIZE}     # offsets of the table's two private members; set by detect_layout() on every run


def detect_layout(ctx):
    """The table's members are private and may be declared in either order (or renamed): find out where the map model and
    the cursor live by constructing one table and looking at its image - the map model has present[0] == 1 followed by 255
    zero flags, the cursor holds 1. No name or declaration order of a private member is assumed."""
    sz = ctx.run("k_apm_sizeof", [])
    size = symex.simp(sz[0].ret).as_long() if len(sz) == 1 else -1
    paths = ctx.run("k_apm_ctor", [BV(M, 64)])
    if len(paths) != 1 or paths[0].status != "ret" or size != MAP_SIZE + 8:
        raise Inconclusive("unexpected shape of app_pointer_map over the map model (size %d)" % size)
    q = paths[0]
    byte = lambda off: symex.simp(z3.Select(q.mem, BV(M + off, 64)))
    conc1 = lambda off, v: z3.is_bv_value(byte(off)) and byte(off).as_long() == v
    for mo, co in ((0, MAP_SIZE), (8, 0)):
        if conc1(mo, 1) and all(conc1(mo + j, 0) for j in range(1, 256)) and conc1(co, 1):
            LAY["map"], LAY["cnt"] = mo, co
            return
    raise Inconclusive("could not locate the map and the cursor inside app_pointer_map")


def pres(mem, i):
    return z3.Select(mem, BV(M + LAY["map"], 64) + zext(i, 64))


def val(mem, i):
    a = BV(M + LAY["map"] + OFF_SLOTS + 8, 64) + zext(i, 64) * 16
    return z3.Concat(*[z3.Select(mem, a + k) for k in reversed(range(8))])


def cnt(mem):
    return z3.Select(mem, BV(M + LAY["cnt"], 64))


def invariant(mem, limit):
    cs = [pres(mem, BV(0, 8)) == 1, z3.UGE(cnt(mem), 1), z3.ULE(zext(cnt(mem), 16), zext(limit, 16) + 1)]
    for j in range(256):
        pj = z3.Select(mem, BV(M + LAY["map"] + j, 64))
        cs.append(z3.ULE(pj, 1))
        if j > 0:
            cs.append(z3.Implies(z3.UGT(BV(j, 8), limit), pj == 0))
    return z3.And(*cs)


def inv_query(mem, limit, j):
    """invariant with the universally quantified part instantiated at a fresh j (for use on the post-state)"""
    return z3.And(pres(mem, BV(0, 8)) == 1, z3.UGE(cnt(mem), 1), z3.ULE(zext(cnt(mem), 16), zext(limit, 16) + 1),
                  z3.ULE(pres(mem, j), 1), z3.Implies(z3.And(j != 0, z3.UGT(j, limit)), pres(mem, j) == 0))


def invariant_any_limit(mem):
    """what every history guarantees when the limit itself may change between calls (the table outlives a sandbox
    incarnation; a re-created sandbox may be smaller): key 0 is present, presence flags are 0/1 - the cursor and the
    tokens of still-living owners may lie above the current limit"""
    return z3.And(pres(mem, BV(0, 8)) == 1, *[z3.ULE(z3.Select(mem, BV(M + LAY["map"] + j, 64)), 1) for j in range(256)])


def check_apm(ctx, op, L, shrunk=False):
    detect_layout(ctx)
    eng = ctx.eng
    mem0 = eng.initial_memory()
    limit = ctx.sym("limit", 8)
    if shrunk:
        ctx.assume(z3.UGE(limit, 1), z3.ULE(limit, L), invariant_any_limit(mem0), z3.ULE(cnt(mem0), 2 * L))
        for jj in range(2 * L + 1, 256):
            ctx.assume(z3.Select(mem0, BV(M + LAY["map"] + jj, 64)) == 0)     # bound: earlier limits were at most 2L
    else:
        ctx.assume(z3.UGE(limit, 1), z3.ULE(limit, L), invariant(mem0, limit))
    j = ctx.sym("j", 8)
    if op == "get":
        ptr = ctx.sym("ptr", 64)
        paths = ctx.run("k_apm_get", [BV(M, 64), ptr, limit])
        free = z3.Or(*[z3.And(z3.ULE(BV(t, 8), limit), z3.Select(mem0, BV(M + LAY["map"] + t, 64)) == 0) for t in range(1, L + 1)])
        for q in paths:
            if q.status == "ret":
                tok = z3.Extract(7, 0, q.ret)
                ctx.require(q, z3.And(tok != 0, z3.ULE(tok, limit), pres(mem0, tok) == 0, pres(q.mem, tok) == 1, val(q.mem, tok) == ptr),
                            "issued token is non-zero, within the limit, was unused, and now maps to the registered pointer")
                ctx.require(q, z3.Implies(j != tok, z3.And(pres(q.mem, j) == pres(mem0, j), z3.Implies(pres(mem0, j) == 1, val(q.mem, j) == val(mem0, j)))),
                            "no other entry of the table changes")
                if not shrunk:
                    ctx.require(q, inv_query(q.mem, limit, j), "the table invariant is preserved")
            elif q.status == "abort":
                ctx.require(q, z3.Not(free), "registration aborts only when every token up to the limit is in use")
        ctx.only(paths, "ret", "abort")
        ctx.expect(paths, ret=1, abort=1)
    elif op == "rm":
        i = ctx.sym("i", 8)
        ctx.assume(i != 0)
        paths = ctx.run("k_apm_rm", [BV(M, 64), i])
        for q in paths:
            if q.status == "ret":
                ctx.require(q, z3.And(pres(mem0, i) == 1, pres(q.mem, i) == 0), "release removes a present token")
                ctx.require(q, z3.Implies(j != i, z3.And(pres(q.mem, j) == pres(mem0, j), z3.Implies(pres(mem0, j) == 1, val(q.mem, j) == val(mem0, j)))),
                            "no other entry changes")
                ctx.require(q, inv_query(q.mem, limit, j), "the table invariant is preserved")
            elif q.status == "abort":
                ctx.require(q, pres(mem0, i) == 0, "release aborts only for a token that is not registered")
        ctx.only(paths, "ret", "abort")
        ctx.expect(paths, ret=1, abort=1)
    elif op == "lk":
        i = ctx.sym("i", 8)
        paths = ctx.run("k_apm_lk", [BV(M, 64), i])
        for q in paths:
            if q.status == "ret":
                ctx.require(q, z3.And(pres(mem0, i) == 1, q.ret == val(mem0, i)), "lookup of a registered token returns exactly its pointer")
                ctx.require(q, z3.And(pres(q.mem, j) == pres(mem0, j), val(q.mem, j) == val(mem0, j), cnt(q.mem) == cnt(mem0)), "lookup does not change the table")
            elif q.status == "abort":
                ctx.require(q, pres(mem0, i) == 0, "lookup aborts only for a token that is not registered")
        ctx.only(paths, "ret", "abort")
        ctx.expect(paths, ret=1, abort=1)


def check_ctor(ctx):
    detect_layout(ctx)
    paths = ctx.run("k_apm_ctor", [BV(M, 64)])
    j = ctx.sym("j", 8)
    for q in paths:
        if q.status == "ret":
            ctx.require(q, z3.And(pres(q.mem, BV(0, 8)) == 1, z3.Implies(j != 0, pres(q.mem, j) == 0), cnt(q.mem) == 1),
                        "a new table satisfies the invariant for every limit: only key 0 present, cursor 1")
    ctx.only(paths, "ret")
    ctx.expect(paths, ret=1)


# ------------------------------------------------------------------ owner histories
NOPS = 12


def simulate(ops):
    """reference semantics from the property text. returns (abort_step or None, owners per step, origin per owner)"""
    own = [None, None, None]       # origin object index of the registration held, or None
    live = 0
    hist = []
    for step, op in enumerate(ops):
        if op in (0, 1, 2):
            if live >= 3:
                return step, hist, own
            live += 1
            if own[op] is not None:
                live -= 1
            own[op] = op
        elif op in (3, 4, 5):
            a = op - 3
            if own[a] is not None:
                live -= 1
                own[a] = None
        elif op in (6, 7, 8):
            a, b = {6: (0, 1), 7: (1, 2), 8: (2, 0)}[op]
            if own[a] is not None:
                live -= 1
            own[a] = own[b]
            own[b] = None
        elif op == 9:
            if own[0] is not None:
                live -= 1
                own[0] = None
        elif op == 10:
            if live >= 3:
                return step, hist, own
        # op 11 (destroy + re-create the sandbox) changes nothing: owners keep their tokens
        hist.append(list(own))
    return None, hist, own


def check_hist(ctx, depth, first):
    base = ctx.sandbox_base(2)
    ops = ctx.buffer(depth, name="op")
    for b in ops.init:
        ctx.assume(z3.ULE(b, NOPS - 1))
    ctx.assume(ops.init[0] == first)
    gobj = ctx.eng.gaddr.get("_ZL5g_obj")
    if gobj is None:
        raise Inconclusive("g_obj not found")
    paths = ctx.run("k_owner_hist", [base, ops, BV(depth, 32)])
    nret = 0
    for q in paths:
        r, m = ctx.eng.check_sat(q.pc)
        if r != "sat":
            ctx.inconclusive.append("owner history: path model: " + r)
            continue
        seq = [mval(m, b) for b in ops.init]
        astep, hist, own = simulate(seq)
        lg = q.user.get("log") or []
        steps = [e for e in lg if e[0] == 6]
        ctx.obligations += 1
        bad = None
        if q.status == "abort":
            if astep is None or astep != len(steps):
                bad = "aborted at step %d (%s); the reference model expects %s" % (len(steps), q.info, "no abort" if astep is None else "abort at step %d" % astep)
        elif q.status == "ret":
            nret += 1
            if astep is not None:
                bad = "registration with every token in use did not abort (expected at step %d)" % astep
        else:
            bad = "unexpected outcome %s %s" % (q.status, q.info)
        if bad is None:
            for k, e in enumerate(steps):
                toks = symex.simp(e[2]) if not isinstance(e[2], int) else e[2]
                toks = toks.as_long() if not isinstance(toks, int) else toks
                t = [(toks >> (8 * i)) & 0xFF for i in range(3)]
                exp = hist[k]
                for i in range(3):
                    if (t[i] != 0) != (exp[i] is not None):
                        bad = "after step %d owner %d %s a token (%d) but the model says it %s" % (k, i, "holds" if t[i] else "holds no", t[i], "owns a registration" if exp[i] is not None else "is empty")
                livet = [x for x in t if x]
                if len(set(livet)) != len(livet) or any(x > 3 for x in livet):
                    bad = "after step %d tokens %s are not distinct / within the limit" % (k, t)
                if bad:
                    break
        if bad is None and q.status == "ret":
            for e in [e for e in lg if e[0] == 8]:
                jv = e[1] if isinstance(e[1], int) else symex.simp(e[1]).as_long()
                if own[jv] is None:
                    bad = "owner %d holds a token although the model says it is empty" % jv
                    continue
                got = e[2] if not isinstance(e[2], int) else BV(e[2], 64)
                r2, m2 = ctx.eng.check_sat(q.pc + [got != BV(gobj + 4 * own[jv], 64)])
                if r2 != "unsat":
                    bad = "lookup of owner %d's token does not return the pointer registered for it (%s)" % (jv, symex.simp(got))
        if bad:
            class P:  # minimal path-like for reporting
                pass
            ctx.report(q, {"check": ctx.name, "kernel": "k_owner_hist", "violated": bad, "inputs": {"ops": seq}, "outcome": q.status,
                                   "msg": q.info, "replayed": None, "case": ctx.native_case(q, m) if ctx.native else None})
        else:
            ctx.discharged += 1
    ctx.expect(paths, ret=1)
    ctx.validate_paths(paths, 12)


def check_var_limit(ctx):
    base = ctx.sandbox_base(8, "base")
    base2 = ctx.sandbox_base(8, "base2")
    ctx.assume(base != base2)
    big = ctx.sym("big", 32)
    small = ctx.sym("small", 32)
    first = ctx.sym("first", 32)
    ctx.assume(z3.UGE(big, 16), z3.ULE(big, 200), z3.UGE(small, 2), z3.ULE(small, 6), z3.ULE(first, 1))
    paths = ctx.run("k_var_limit", [base, base2, big, small, first])
    for q in paths:
        toks = [e[2] if not isinstance(e[2], int) else BV(e[2], 64) for e in (q.user.get("log") or []) if e[0] == 8]
        if toks:
            ctx.require(q, z3.And(*[z3.And(t != 0, z3.ULT(t, zext(small, 64))) for t in toks]),
                        "every token issued by the small sandbox is non-zero and below its own memory size, whichever sandbox of the type was used first")
        if q.status == "abort":
            ctx.require(q, z3.ULE(zext(small, 64), BV(len(toks) + 1, 64)), "registration is refused only when every token of the small sandbox is in use")
        elif q.status == "ret":
            ctx.require(q, z3.BoolVal(len(toks) == 4), "four registrations succeeded")
    ctx.only(paths, "ret", "abort")
    ctx.expect(paths, ret=1, abort=1)


def check_stale(ctx):
    base = ctx.sandbox_base(2)
    w = ctx.sym("which", 32)
    ctx.assume(z3.ULE(w, 2))
    paths = ctx.run("k_owner_stale", [base, w])
    for q in paths:
        if q.status == "ret":
            ctx.fail(q, "lookup of a token whose owner was unregistered, destroyed or overwritten must abort")
        elif q.status == "abort":
            lg = [e for e in (q.user.get("log") or []) if e[0] == 9]
            ctx.require(q, z3.BoolVal(len(lg) == 1), "the abort comes from the stale lookup, not from an earlier step")
    ctx.expect(paths, abort=3)


def check_two_sandboxes(ctx):
    base = ctx.sandbox_base(2, "base")
    base2 = ctx.sandbox_base(2, "base2")
    ctx.assume(base != base2)
    gobj = ctx.eng.gaddr.get("_ZL5g_obj")
    paths = ctx.run("k_owner_two_sandboxes", [base, base2])
    for q in paths:
        lg = q.user.get("log") or []
        if q.status == "ret":
            ctx.fail(q, "the token of an owner overwritten by an owner of another sandbox (with an equal token value) is still resolvable")
        elif q.status == "abort":
            e8 = [e for e in lg if e[0] == 8]
            ok = bool(e8) and e8[0][1] == 0 and e8[0][2] == 1
            got = e8[0][3] if e8 else 0
            ctx.require(q, z3.And(z3.BoolVal(ok), (got if not isinstance(got, int) else BV(got, 64)) == BV(gobj + 4, 64)),
                        "move-assignment between owners of different sandboxes transfers the token and empties the source")
    ctx.expect(paths, abort=1)


def check_b32(ctx):
    base = ctx.sandbox_base(32)
    gobj = ctx.eng.gaddr.get("_ZL5g_obj")
    paths = ctx.run("k_b32_tokens", [base])
    for q in paths:
        if q.status != "ret":
            ctx.fail(q, "registration on an empty 32-bit token table failed: %s" % q.info)
            continue
        lg = q.user["log"]
        e7 = [e for e in lg if e[0] == 7][0]
        e8 = [e for e in lg if e[0] == 8][0]
        v = lambda x: x if not isinstance(x, int) else BV(x, 64)
        ctx.require(q, z3.And(v(e7[1]) != 0, v(e7[2]) != 0, v(e7[1]) != v(e7[2]), z3.ULE(v(e7[1]), BV(0xFFFFFFFF, 64)), z3.ULE(v(e7[2]), BV(0xFFFFFFFF, 64)),
                              v(e7[3]) == BV(gobj + 4, 64), v(e8[1]) != 0, v(e8[1]) != v(e7[2]), v(e8[2]) == BV(gobj + 8, 64)),
                    "tokens are non-zero, within the 32-bit range, distinct among live owners and resolve to their pointers")
    ctx.only(paths, "ret")
    ctx.expect(paths, ret=1)


def check_bm_kinds(ctx):
    b0 = ctx.sandbox_base(32, "b0", aligned=False)
    paths = ctx.run("k_bm_app_pointer_kinds", [b0])
    for q in paths:
        if q.status != "ret":
            ctx.fail(q, "registering an application pointer to a function-pointer object failed: %s %s" % (q.status, q.info))
            continue
        lg = q.user["log"]
        e7 = [e for e in lg if e[0] == 7][0]
        e8 = [e for e in lg if e[0] == 8][0]
        v = lambda x: x if not isinstance(x, int) else BV(x, 64)
        ctx.require(q, z3.And(v(e7[1]) != 0, v(e7[2]) != 0, v(e7[1]) != v(e7[2]), z3.ULE(v(e7[2]), BV(0xFFFFFFFF, 64)), v(e7[3]) == v(e8[2]),
                              v(e8[1]) == b0 + v(e7[2])),
                    "the token of a pointer to a function-pointer object is non-zero, in range, distinct, resolves to its pointer, and its tainted form is the "
                    "in-sandbox address base + token (a data address, not a function-table entry)")
    ctx.only(paths, "ret")
    ctx.expect(paths, ret=1)


def check_refused_exc(ctx):
    from specs.C19 import install_exc, conc
    install_exc(ctx.eng)
    base = ctx.sandbox_base(32)
    paths = ctx.run("k_app_pointer_refused", [base])
    for q in paths:
        if q.status != "ret":
            ctx.fail(q, "ended %s %s" % (q.status, q.info))
            continue
        lg = q.user["log"]
        e7 = [e for e in lg if e[0] == 7][0]
        e8 = [e for e in lg if e[0] == 8][0]
        e9 = [e for e in lg if e[0] == 9][0]
        v = lambda x: x if not isinstance(x, int) else BV(x, 64)
        ctx.require(q, z3.And(v(e7[1]) == 1, v(e8[1]) != 0, v(e8[2]) == v(e8[3]), v(e9[1]) == 0),
                    "a refused registration raises and leaves no token behind: afterwards only the live owner's token resolves")
    ctx.only(paths, "ret")
    ctx.expect(paths, ret=1)


def check_owner_unwound(ctx):
    from specs.C19 import install_exc
    install_exc(ctx.eng)
    base = ctx.sandbox_base(32)
    how = ctx.sym("how", 32)
    ctx.assume(z3.ULE(how, 1))
    paths = ctx.run("k_owner_unwound", [base, how])
    for q in paths:
        if q.status != "ret":
            ctx.fail(q, "ended %s %s" % (q.status, q.info))
            continue
        lg = q.user["log"]
        e7 = [e for e in lg if e[0] == 7]
        e9 = [e for e in lg if e[0] == 9]
        v = lambda x: x if not isinstance(x, int) else BV(x, 64)
        ctx.require(q, z3.And(z3.BoolVal(len(e7) == 1 and len(e9) == 1), v(e9[0][1]) == 0) if e9 else z3.BoolVal(False),
                    "an owner destroyed during exception unwinding releases its token: the token no longer resolves")
    ctx.only(paths, "ret")
    ctx.expect(paths, ret=2)


def check_apm_max(ctx, cursor):
    """limit = the largest value of the token type (255): the table is full except for at most one symbolic slot;
    the cursor is a given concrete position (0 = wrapped after issuing token 255)"""
    detect_layout(ctx)
    eng = ctx.eng
    mem0 = eng.initial_memory()
    t = ctx.sym("free", 8)                      # the one free token, or 0 for "none"
    cs = [pres(mem0, BV(0, 8)) == 1, cnt(mem0) == cursor]
    for jj in range(1, 256):
        cs.append(z3.Select(mem0, BV(M + LAY["map"] + jj, 64)) == z3.If(t == jj, BV(0, 8), BV(1, 8)))
    ctx.assume(*cs)
    ptr = ctx.sym("ptr", 64)
    paths = ctx.run("k_apm_get", [BV(M, 64), ptr, BV(255, 8)])
    for q in paths:
        if q.status == "ret":
            tok = z3.Extract(7, 0, q.ret)
            ctx.require(q, z3.And(t != 0, tok == t, pres(q.mem, tok) == 1, val(q.mem, tok) == ptr), "the only unused token is issued")
        elif q.status == "abort":
            ctx.require(q, t == 0, "registration aborts only when every token up to the limit is in use")
        elif q.status == "unwind":
            # the search reads a table of 255 entries with an 8-bit index and does not modify it: a block visited more
            # than 1200 times means the same (index, table) state recurs - the search does not terminate
            ctx.fail(q, "the search for a free token does not terminate (more than 1200 iterations over a 255-entry table): %s" % q.info, force=True)
    ctx.only(paths, "ret", "abort", "unwind")
    ctx.expect(paths, ret=1, abort=1)


def jobs(tier, seed):
    L = 12 if tier == "quick" else 40
    flags = ["-isystem", "/verif/stubs/mapmodel", "-fno-exceptions"]
    src = '#include "C15_apm.inc"\n'
    out = [Job("C15_apm_" + op, src, [dict(name="table %s limit<=%d" % (op, L), fn=check_apm, kw=dict(op=op, L=L), unwind=600)], flags=flags, native=False,
               max_paths=200000) for op in ("get", "rm", "lk")]
    for c in ((1, 255, 0) if tier == "quick" else (1, 2, 128, 254, 255, 0)):
        out.append(Job("C15_apm_max_%d" % c, src, [dict(name="limit 255 (largest token value), cursor %d" % c, fn=check_apm_max, kw=dict(cursor=c), unwind=1200)],
                       flags=flags, native=False, max_paths=200000))
    # configuration: exceptions requested by the embedder (RLBOX_USE_EXCEPTIONS) in a TU built with -fno-exceptions: a failed check still aborts
    for op in ("get", "lk"):
        out.append(Job("C15_apm_cfg_noexc_" + op, src, [dict(name="table %s limit<=6, RLBOX_USE_EXCEPTIONS + -fno-exceptions" % op, fn=check_apm, kw=dict(op=op, L=6), unwind=600)],
                       flags=flags + ["-DRLBOX_USE_EXCEPTIONS"], native=False, max_paths=200000))
    # the limit may shrink between calls (same sandbox object re-created with a smaller memory while owners live on)
    out.append(Job("C15_apm_shrunk", src, [dict(name="table get after the limit shrank (limit<=%d, earlier limit<=%d)" % (L // 2, L), fn=check_apm,
                                                kw=dict(op="get", L=L // 2, shrunk=True), unwind=600)], flags=flags, native=False, max_paths=200000))
    out.append(Job("C15_apm_ctor", src, [dict(name="table constructor", fn=check_ctor, unwind=600)], flags=flags, native=False))
    depth = 3 if tier == "quick" else 4
    osrc = '#include "C15_owner.inc"\n'
    for f in range(NOPS):
        out.append(Job("C15_owner_hist_%d" % f, osrc, [dict(name="owner histories depth %d first op %d" % (depth, f), fn=check_hist,
                                                            kw=dict(depth=depth, first=f), unwind=400)], max_paths=200000))
    out.append(Job("C15_owner_two", osrc, [dict(name="owners of two sandboxes with equal tokens", fn=check_two_sandboxes, unwind=400)], native=False))
    out.append(Job("C15_b32", '#include "C15_b32.inc"\n', [dict(name="32-bit token table on a 4 GiB sandbox", fn=check_b32, unwind=400)], native=False))
    out.append(Job("C15_refused_exc", '#include "C15_exc.inc"\n', [dict(name="refused app-pointer registration leaves no token (exceptions)", fn=check_refused_exc, unwind=400)],
                   native=False, flags=["-D_GLIBCXX_EXTERN_TEMPLATE=0"]))
    out.append(Job("C15_owner_unwound", '#include "C15_exc.inc"\n', [dict(name="owner destroyed during exception unwinding releases its token", fn=check_owner_unwound, unwind=400)],
                   native=False, flags=["-D_GLIBCXX_EXTERN_TEMPLATE=0"]))
    out.append(Job("C15_bm_kinds", '#include "C15_bm.inc"\n', [dict(name="BM app pointers to int and to function-pointer objects", fn=check_bm_kinds, unwind=400)], native=False))
    out.append(Job("C15_var_limit", '#include "C15_var.inc"\n', [dict(name="per-sandbox token limit on a backend with per-sandbox memory size", fn=check_var_limit, unwind=400)], native=False))
    out.append(Job("C15_owner_stale", osrc, [dict(name="stale token lookup", fn=check_stale, unwind=400)]))
    return out
