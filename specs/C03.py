"""C03 - every tainted data pointer is null or points into its own sandbox (inductive step)."""
import z3
from specs.common import *  # noqa: F401,F403
from specs import common as C

META = {
    "level": "model_checking",
    "bounds": {
        "quick": "one pointer-producing operation per kernel (36 kernels) on B32 (4 GiB region, 32-bit reps) with symbolic base, input pointer "
                 "(null or anywhere inside), guest representation / cell content (all bit patterns), index and count",
        "thorough": "same on B32 and B16 (64 KiB region, 16-bit reps)",
    },
    "outside": "pointee types other than those in kernels/C03_kernels.inc; chains are covered inductively (every input pointer is only assumed "
               "null-or-inside, every output is proved null-or-inside), not by enumeration",
    "assumptions": ["inductive hypothesis: every tainted pointer handed to an operation is null or inside the region"],
}

# kernel -> list of argument kinds after 'base'
KERNELS = {
    "k_conv_ctx_int": ["any32"], "k_conv_ctx_vs24": ["any32"],
    "k_load_ptr": ["cell:8"], "k_load_ptr_unverified": ["cell:8"],
    "k_load_ptr_arr_elem": ["cell:12", "i3"], "k_load_ptr_arr_elem_direct": ["cell:12", "i3"],
    "k_load_struct_field": ["cell:12"], "k_load_struct_copy_field": ["cell:12"],
    "k_add_int": ["ptr", "n32"], "k_sub_long": ["ptr", "n64"], "k_add_vs24_ull": ["ptr", "n64"],
    "k_addridx_int": ["ptr", "n32"], "k_addridx_long_ul": ["ptr", "n64"], "k_idx_intp_ll": ["ptr", "n64"],
    "k_preinc_short": ["ptr"], "k_postdec_llong": ["ptr"],
    "k_addrof_deref": ["ptr"], "k_addrof_field_a": ["ptr"], "k_addrof_field_c": ["ptr"], "k_addrof_arr_elem": ["ptr", "n32"],
    "k_deref_ptrptr": ["cell:8"],
    "k_reinterpret": ["ptr"], "k_reinterpret_vol": ["cell:8"], "k_constcast": ["ptr"], "k_staticcast": ["ptr"],
    "k_opaque": ["ptr"],
    "k_malloc_int": ["n32"], "k_malloc_vs24": ["n32"], "k_malloc_one_long": [],
    "k_app_pointer": ["any64"], "k_app_pointer_moved": ["any64", "any64", "i3"], "k_accept": ["any64"],
    "k_plain_plus_ptr": ["ptr", "n32"],
    "k_staticcast_mi": ["ptr"],
    "k_addrof_arr300_schar": ["ptr", "n8"], "k_addrof_arr40000_short": ["ptr", "n16"],
}
OPTIONAL = {"k_plain_plus_ptr"}
# offsets added by derived-address operations: the result may leave the region only because the
# *object* designated by an inside pointer does not fit before the end of the region
DERIVED = {"k_addrof_field_a": 0, "k_addrof_field_c": 8, "k_addrof_arr_elem": None, "k_staticcast_mi": 56, "k_addrof_arr300_schar": None,
           "k_addrof_arr40000_short": None}


def check_op(ctx, k, log, room_scale=1):
    base = ctx.sandbox_base(log)
    size = 1 << log
    args = [base]
    vec = []
    b0 = 0x300000000 if log == 32 else 0x300000000 + (9 << log)
    ptr = None
    nidx = None
    for i, kind in enumerate(KERNELS[k]):
        nm = "a%d" % i
        if kind == "any32":
            v = ctx.sym(nm, 64)
            ctx.assume(z3.ULE(v, BV(0xFFFFFFFF, 64)))
            vec.append([0, 1, size - 1, 0x1234 % size])
        elif kind == "any64":
            v = ctx.sym(nm, 64)
            vec.append([0, b0, b0 + size - 1, b0 + size, b0 - 1, 0x1000])
        elif kind.startswith("cell"):
            room = int(kind.split(":")[1]) * room_scale
            v = ctx.sym(nm, 64)
            ctx.assume(z3.UGE(v, base), z3.ULE(v - base, BV(size - room, 64)))
            vec.append([b0 + 0x40, b0, b0 + size - room])
            ptr = v
        elif kind == "ptr":
            v = ctx.sym(nm, 64)
            ctx.assume(z3.Or(v == 0, ctx.in_region(v, base, size)))
            vec.append([0, b0, b0 + 8, b0 + size - 8, b0 + size - 1])
            ptr = v
        elif kind == "i3":
            v = ctx.sym(nm, 32)
            ctx.assume(z3.ULT(v, 3))
            vec.append([0, 1, 2])
        elif kind in ("n8", "n16"):
            v = ctx.sym(nm, int(kind[1:]))
            vec.append([0, 1, 2, 0x7F, 0x80, 0xFD, 0xFF] if kind == "n8" else [0, 1, 0x7FFF, 0x8000, 0xFFFF, 39999])
            nidx = v
        elif kind == "n32":
            v = ctx.sym(nm, 32)
            vec.append([0, 1, 2, 3, 0xFFFFFFFF, 0x7FFFFFFF, 0x80000000, size // 4 if log < 32 else 0x40000000])
            nidx = v
        elif kind == "n64":
            v = ctx.sym(nm, 64)
            vec.append([0, 1, 2, (1 << 64) - 1, 1 << 63, (1 << 62) + 1, size // 4])
            nidx = v
        args.append(v)
    paths = ctx.run(k, args)
    known = []
    if k in DERIVED and ptr is not None:
        # object designated by the input pointer does not fit inside the region
        objsize = {"k_addrof_arr_elem": 16, "k_staticcast_mi": 64, "k_addrof_arr300_schar": 1200, "k_addrof_arr40000_short": 40000}.get(k, 12)
        known = [("C03-object-straddles-end", z3.And(ctx.in_region(ptr, base, size), z3.UGT(ptr - base, BV(size - objsize, 64))))]
    for q in paths:
        if q.status == "ret":
            r = q.ret
            ctx.require(q, z3.Or(r == 0, ctx.in_region(r, base, size)),
                        "produced tainted pointer is null or inside the sandbox region", known=known)
    ctx.only(paths, "ret", "abort", "alloc-fail")
    ctx.expect(paths, ret=1)
    # validation vectors: cartesian product over small per-argument lists (bounded)
    import itertools
    vs = [[b0] + list(t) for t in itertools.islice(itertools.product(*vec), 60)] if vec else [[b0]]
    env = [0x40, 0x80] if k.startswith("k_malloc") else None
    mem = None
    if any(kd.startswith("cell") for kd in KERNELS[k]):
        mem = {b0 + 0x40 + i: (0x11 * (i + 1)) & 0xFF for i in range(16)}
        mem.update({b0 + i: 0 for i in range(16)})
        mem.update({b0 + size - 16 + i: 0xFF for i in range(16)})
    ctx.validate(k, vs, base=b0 if (mem or k.startswith("k_malloc") or True) else None, mem=mem, env=env)


def check_slot(ctx, k, log):
    """the invariant holds for a long-lived tainted pointer on every exit of the operation, including the refusing one"""
    base = ctx.sandbox_base(log)
    size = 1 << log
    slot = ctx.buffer(8, name="slot")
    old = z3.Concat(*reversed(slot.init))
    ctx.assume(z3.Or(old == 0, ctx.in_region(old, base, size)))
    addr = ctx.sym("addr", 64)
    paths = ctx.run(k, [base, slot, addr])
    for q in paths:
        now = z3.Concat(*[ctx.eng.cbyte(q, slot.addr + i) for i in reversed(range(8))])
        ctx.require(q, z3.Or(now == 0, ctx.in_region(now, base, size)),
                    "the tainted pointer is null or inside the region when the operation %s" % ("returns" if q.status == "ret" else "refuses the address"))
    ctx.only(paths, "ret", "abort")
    ctx.expect(paths, ret=1, abort=1)


def check_vol(ctx, k, log):
    """pointer operations on a sandbox-resident pointer, every fetch of the cell adversarial"""
    from specs.C09 import adversarial
    adversarial(ctx)
    base = ctx.sandbox_base(log)
    size = 1 << log
    cell = ctx.sym("cell", 64)
    ctx.assume(z3.UGE(cell, base), z3.ULE(cell - base, BV(size - 8, 64)))
    args = [base, cell]
    if k != "k_vol_field":
        fn = ctx.eng.m.funcs[k]
        n = ctx.sym("n", ctx.eng.bits_of(fn.params[2][0]))
        args.append(n)
    paths = ctx.run(k, args)
    for q in paths:
        if q.status == "ret":
            known = []
            if k == "k_vol_field":
                # the struct pointer fetched from the cell may designate an object that straddles the end of the region
                adv = q.user.get("adv") or []
                rep = zext(adv[0][2], 64) if adv else BV(0, 64)
                known = [("C03-object-straddles-end", z3.UGT(rep, BV(size - 12, 64)))]
            ctx.require(q, z3.Or(q.ret == 0, ctx.in_region(q.ret, base, size)),
                        "the produced pointer is null or inside the sandbox whatever the sandbox writes to the cell between rlbox's reads", known=known)
    ctx.only(paths, "ret", "abort")
    ctx.expect(paths, ret=1)


def check_small(ctx, k):
    """B32S: only 64 KiB of the 4 GiB representation space is sandbox memory"""
    base = ctx.sandbox_base(32)
    mem = 1 << 16
    args = [base]
    if "malloc" in k:
        c = ctx.sym("count", 32)
        args.append(c)
    else:
        a = ctx.sym("addr", 64)
        args.append(a)
    paths = ctx.run(k, args)
    for q in paths:
        if q.status == "ret":
            ctx.require(q, z3.Or(q.ret == 0, ctx.in_region(q.ret, base, mem)),
                        "the produced pointer is null or inside the sandbox's memory (not merely inside its address window)")
    ctx.only(paths, "ret", "abort")
    ctx.expect(paths, ret=1, abort=1)


def check_bm_cast(ctx, k):
    """BM: function representations translate to a tagged address range that is not sandbox memory"""
    size = 1 << 32
    b0 = ctx.sandbox_base(32, "b0", aligned=False)
    rep = ctx.sym("rep", 32)
    paths = ctx.run(k, [b0, rep])
    for q in paths:
        if q.status == "ret":
            ctx.require(q, z3.Or(q.ret == 0, ctx.in_region(q.ret, b0, size)),
                        "a tainted data pointer obtained by casting is null or inside the sandbox region (a function pointer's application-side value is not)")
    ctx.only(paths, "ret", "abort")
    ctx.expect(paths, ret=1)


def check_bm_arith1(ctx, k, nbits):
    size = 1 << 32
    b0 = ctx.sandbox_base(32, "b0", aligned=False)
    p = ctx.sym("p", 64)
    ctx.assume(ctx.in_region(p, b0, size))
    n = ctx.sym("n", nbits)
    paths = ctx.run(k, [b0, p, n])
    for q in paths:
        if q.status == "ret":
            ctx.require(q, z3.Or(q.ret == 0, ctx.in_region(q.ret, b0, size)), "pointer arithmetic / indexing yields a pointer inside the sandbox or aborts")
    ctx.only(paths, "ret", "abort")
    ctx.expect(paths, ret=1, abort=1)


def check_bm_cell(ctx, k):
    size = 1 << 32
    b0 = ctx.sandbox_base(32, "b0", aligned=False)
    cell = ctx.sym("cell", 64)
    ctx.assume(z3.UGE(cell, b0), z3.ULE(cell - b0, BV(size - 4, 64)))
    mem0 = ctx.eng.initial_memory()
    rep = z3.Concat(*[z3.Select(mem0, cell + BV(i, 64)) for i in reversed(range(4))])
    paths = ctx.run(k, [b0, cell])
    for q in paths:
        if q.status == "ret":
            ctx.require(q, q.ret == z3.If(rep == 0, BV(0, 64), b0 + zext(rep, 64)),
                        "a pointer to a function pointer read from sandbox memory is a data pointer: null or base + representation (inside the region)")
    ctx.only(paths, "ret", "abort")
    ctx.expect(paths, ret=1)


def jobs(tier, seed):
    out = []
    backends = [("B32", 32)] + ([("B16", 16)] if tier == "thorough" else [])
    names = list(KERNELS)
    for sbx, log in backends:
        for gi, grp in enumerate(C.chunks(names, 8)):
            src = '#include "verif_sandbox.hpp"\nusing S = %s;\n#include "C03_kernels.inc"\n' % sbx
            out.append(Job("C03_%s_%d" % (sbx, gi), src,
                           [dict(name="%s %s" % (sbx, k), fn=check_op, kw=dict(k=k, log=log), optional=(k in OPTIONAL)) for k in grp]))
    # B64M: guest pointers have the application's width but a different representation (offset from base, masked into the region)
    src = '#include "verif_sandbox.hpp"\nusing S = B64M;\n#include "C03_kernels.inc"\n'
    out.append(Job("C03_B64M_loads", src, [dict(name="B64M %s" % k, fn=check_op, kw=dict(k=k, log=32, room_scale=2))
                                          for k in ("k_load_ptr", "k_load_ptr_arr_elem", "k_load_ptr_arr_elem_direct", "k_load_struct_field",
                                                    "k_load_struct_copy_field", "k_deref_ptrptr")]))
    for sbx, log in backends[:1]:
        src = '#include "verif_sandbox.hpp"\nusing S = %s;\n#include "C03_kernels.inc"\n' % sbx
        out.append(Job("C03_%s_vol" % sbx, src, [dict(name="%s adversarial %s" % (sbx, k), fn=check_vol, kw=dict(k=k, log=log))
                                                 for k in ("k_vol_add", "k_vol_sub", "k_vol_addridx", "k_vol_field")], native=False))
    src = '#include "verif_sandbox.hpp"\nusing S = B32;\n#include "C03_kernels.inc"\n'
    out.append(Job("C03_B32_slot", src, [dict(name="B32 k_assign_slot", fn=check_slot, kw=dict(k="k_assign_slot", log=32))], native=False))
    ssrc = '#include "verif_sandbox.hpp"\nusing S = B32S;\n#include "C03_small.inc"\n'
    out.append(Job("C03_B32S", ssrc, [dict(name="B32S " + k, fn=check_small, kw=dict(k=k)) for k in ("k_small_malloc_int", "k_small_malloc_vs24", "k_small_accept", "k_small_assign")],
                   native=False))
    from specs import C04
    out.append(Job("C03_BM_failed_create", '#include "C04_bm.inc"\n', [dict(name="BM pointer read back after a failed creation elsewhere stays in its sandbox", fn=C04.check_bm_failed)], unwind=200, native=False))
    out.append(Job("C03_BM_arith", '#include "C03_bm.inc"\n', [dict(name="BM k_bm_add1", fn=check_bm_arith1, kw=dict(k="k_bm_add1", nbits=64)),
                                                                 dict(name="BM k_bm_idx1", fn=check_bm_arith1, kw=dict(k="k_bm_idx1", nbits=32))], native=False))
    from specs import C07
    out.append(Job("C03_BM_nested", '#include "C07_bm2.inc"\n', [dict(name="BM pointer field of a struct nested by value: " + k, fn=C07.check_bm2, kw=dict(k=k)) for k in ("k_bm_load_nested",)], native=False))
    for k in ("k_bm_load_fnptrptr", "k_bm_cast_fnptrptr"):
        out.append(Job("C03_BM_" + k, '#include "C03_bm.inc"\n', [dict(name="BM " + k, fn=check_bm_cell, kw=dict(k=k))], native=False))
    for k in ("k_bm_fn_to_data", "k_bm_data_to_data"):
        out.append(Job("C03_BM_" + k, '#include "C03_bm.inc"\n', [dict(name="BM " + k, fn=check_bm_cast, kw=dict(k=k), optional=(k == "k_bm_fn_to_data"))], native=False))
    return out
