"""C06 - integers crossing the ABI boundary keep their value or the operation aborts."""
import z3
from specs.common import *  # noqa: F401,F403
from specs import common as C

META = {
    "level": "model_checking",
    "bounds": {
        "quick": "all ordered pairs over 14 integer types + bool source (scalar, full-width symbolic source); arrays T[3] for 6 pair classes; "
                 "store/load/UNSAFE_sandboxed of 13 tainted integer types on the LP32 model backend; plain and tainted arguments and results of invocations "
                 "(3 signatures) and argument/result of a callback on the multi-instance LP32 backend",
        "thorough": "quick + arrays T[2][2] and T[3] for 12 pair classes + B16 backend end-to-end",
    },
    "outside": "bool as a destination; float/double/enum (no integer conversion is performed for them); "
               "identity of the called function and the other clauses of invocation/callbacks are C11/C12",
    "assumptions": ["model backend B32: long=int32, pointer=uint32 (LP32); region base symbolic, 4 GiB aligned"],
}


def cname(t):
    return t.tag


# ------------------------------------------------------------------ scalar pairs
def scalar_source(to, froms):
    s = [C.PRELUDE]
    for f in froms:
        s.append("K %s k_conv_%s_%s(%s from) { %s to; detail::convert_type_fundamental(to, from); return to; }"
                 % (to.cxx, to.tag, f.tag, f.cxx, to.cxx))
    return "\n".join(s) + "\n"


def check_scalar(ctx, to, frm):
    k = "k_conv_%s_%s" % (to.tag, frm.tag)
    x = ctx.sym("x", frm.bits)
    paths = ctx.run(k, [x])
    X = ext(x, frm.signed)
    inr = z3.And(X >= to.min, X <= to.max)
    for p in paths:
        if p.status == "abort":
            ctx.require(p, z3.Not(inr), "aborts only when the value is not representable in the destination")
        elif p.status == "ret":
            ctx.require(p, z3.And(inr, ext(p.ret, to.signed) == X), "destination holds the same mathematical value")
    ctx.only(paths, "ret", "abort")
    ctx.expect(paths, ret=1)
    vec = [[v] for v in C.boundary_values(frm.bits, [to.max, to.max + 1, to.min, to.min - 1])]
    ctx.validate(k, vec)


# ------------------------------------------------------------------ arrays
def array_source(pairs, shapes):
    s = [C.PRELUDE]
    for to, f in pairs:
        for shp in shapes:
            dims = "".join("[%d]" % d for d in shp)
            tag = "x".join(str(d) for d in shp)
            s.append("K int k_arr_%s_%s_%s(const %s* from, %s* to) {\n"
                     "  auto& f = *reinterpret_cast<const %s(*)%s>(from); auto& t = *reinterpret_cast<%s(*)%s>(to);\n"
                     "  detail::convert_type_fundamental_or_array(t, f); return 0; }"
                     % (to.tag, f.tag, tag, f.cxx, to.cxx, f.cxx, dims, to.cxx, dims))
    return "\n".join(s) + "\n"


def check_array(ctx, to, frm, shape):
    n = 1
    for d in shape:
        n *= d
    k = "k_arr_%s_%s_%s" % (to.tag, frm.tag, "x".join(str(d) for d in shape))
    fb, tb = frm.bits // 8, to.bits // 8
    src = ctx.buffer(n * fb, name="src")
    dst = ctx.buffer(n * tb, name="dst")
    paths = ctx.run(k, [src, dst])
    els = [z3.Concat(*reversed(src.init[i * fb:(i + 1) * fb])) if fb > 1 else src.init[i] for i in range(n)]
    X = [ext(e, frm.signed) for e in els]
    allin = z3.And(*[z3.And(v >= to.min, v <= to.max) for v in X])
    for p in paths:
        if p.status == "abort":
            ctx.require(p, z3.Not(allin), "aborts only when some element is not representable")
        elif p.status == "ret":
            conj = [allin]
            for i in range(n):
                out = ctx.eng.load_conc(p, dst.addr + i * tb, tb)
                conj.append(ext(out, to.signed) == X[i])
            ctx.require(p, z3.And(*conj), "every element converted with its value preserved")
            oob = [e for e in p.events if e[0] == "app-oob"]
            if oob:
                ctx.fail(p, "access outside the two arrays: %r" % (oob[0],))
    ctx.only(paths, "ret", "abort")
    ctx.expect(paths, ret=1)


# ------------------------------------------------------------------ through the wrappers (model backend)
def e2e_source(types, sbx):
    s = [C.PRELUDE_SB, "using S = %s;" % sbx]
    for t in types:
        s.append("K void k_store_%s(uint64_t base, uint64_t cell, %s v) { S::g_base = base; auto p = mk_tainted<%s*, S>(cell); *p = v; }"
                 % (t.tag, t.cxx, t.cxx))
        s.append("K void k_storet_%s(uint64_t base, uint64_t cell, %s v) { S::g_base = base; auto p = mk_tainted<%s*, S>(cell); tainted<%s, S> tv = v; *p = tv; }"
                 % (t.tag, t.cxx, t.cxx, t.cxx))
        s.append("K %s k_load_%s(uint64_t base, uint64_t cell) { S::g_base = base; auto p = mk_tainted<%s*, S>(cell); tainted<%s, S> v = *p; return v.UNSAFE_unverified(); }"
                 % (t.cxx, t.tag, t.cxx, t.cxx))
        s.append("K uint64_t k_sbxd_%s(uint64_t base, %s v) { rlbox_sandbox<S> sb; sb.create_sandbox(base); tainted<%s, S> tv = v; auto r = tv.UNSAFE_sandboxed(sb); "
                 "static_assert(sizeof(r) == %d, \"guest width\"); return (uint64_t)r; }" % (t.tag, t.cxx, t.cxx, t.gbits // 8))
    return "\n".join(s) + "\n"


def check_store(ctx, t, log, variant):
    k = "k_%s_%s" % (variant, t.tag)
    base = ctx.sandbox_base(log)
    size = 1 << log
    cell = ctx.sym("cell", 64)
    v = ctx.sym("v", t.bits)
    gb = t.gbits // 8
    ctx.assume(z3.UGE(cell, base), z3.ULE(cell - base, BV(size - gb, 64)))
    paths = ctx.run(k, [base, cell, v])
    V = ext(v, t.signed)
    inr = z3.And(V >= t.gmin, V <= t.gmax)
    for p in paths:
        if p.status == "abort":
            ctx.require(p, z3.Not(inr), "store aborts only when the value does not fit the guest type")
        elif p.status == "ret":
            got = z3.Concat(*[z3.Select(p.mem, cell + BV(i, 64)) for i in reversed(range(gb))]) if gb > 1 else z3.Select(p.mem, cell)
            ctx.require(p, z3.And(inr, ext(got, t.signed) == V), "guest cell holds the same value")
    ctx.only(paths, "ret", "abort")
    ctx.expect(paths, ret=1)
    b0 = 0x300000000 if log == 32 else (0x300000000 + (7 << log))
    ctx.validate(k, [[b0, b0 + 0x40, x] for x in C.boundary_values(t.bits, [t.gmax, t.gmax + 1, t.gmin, t.gmin - 1])], base=b0)


def check_load(ctx, t, log):
    k = "k_load_%s" % t.tag
    base = ctx.sandbox_base(log)
    size = 1 << log
    cell = ctx.sym("cell", 64)
    gb = t.gbits // 8
    ctx.assume(z3.UGE(cell, base), z3.ULE(cell - base, BV(size - gb, 64)))
    paths = ctx.run(k, [base, cell])
    mem0 = ctx.eng.initial_memory()
    raw = z3.Concat(*[z3.Select(mem0, cell + BV(i, 64)) for i in reversed(range(gb))]) if gb > 1 else z3.Select(mem0, cell)
    for p in paths:
        if p.status == "ret":
            ctx.require(p, ext(p.ret, t.signed) == ext(raw, t.signed), "loaded value equals the guest cell's value")
    ctx.only(paths, "ret")
    ctx.expect(paths, ret=1)
    b0 = 0x500000000
    for pat in (0x00, 0xFF, 0x80, 0x7F):
        ctx.validate(k, [[b0, b0 + 0x10]], mem={b0 + 0x10 + i: (pat if i == gb - 1 else (0xFF if pat in (0xFF, 0x7F) else 0)) for i in range(8)}, base=b0)


def check_sbxd(ctx, t, log):
    k = "k_sbxd_%s" % t.tag
    base = ctx.sandbox_base(log)
    v = ctx.sym("v", t.bits)
    paths = ctx.run(k, [base, v])
    V = ext(v, t.signed)
    inr = z3.And(V >= t.gmin, V <= t.gmax)
    for p in paths:
        if p.status == "abort":
            ctx.require(p, z3.Not(inr), "aborts only when the value does not fit the guest type")
        elif p.status == "ret":
            r = z3.Extract(t.gbits - 1, 0, p.ret)
            ctx.require(p, z3.And(inr, ext(r, t.signed) == V), "sandbox representation has the same value")
    ctx.only(paths, "ret", "abort")
    ctx.expect(paths, ret=1)
    b0 = 0x700000000
    ctx.validate(k, [[b0, x] for x in C.boundary_values(t.bits, [t.gmax, t.gmax + 1])], base=None)


# ------------------------------------------------------------------ stores whose source type differs from the pointee type; in-place ++/--
def x_source(dsts, srcs, sbx):
    s = [C.PRELUDE_SB, "using S = %s;" % sbx]
    for t in dsts:
        for u in srcs:
            if u.tag != t.tag:
                s.append("K void k_xstore_%s_%s(uint64_t base, uint64_t cell, %s v) { S::g_base = base; auto p = mk_tainted<%s*, S>(cell); *p = v; }"
                         % (t.tag, u.tag, u.cxx, t.cxx))
        for op, sym in (("inc", "++"), ("dec", "--")):
            s.append("K void k_%s_%s(uint64_t base, uint64_t cell) { S::g_base = base; auto p = mk_tainted<%s*, S>(cell); %s(*p); }" % (op, t.tag, t.cxx, sym))
    return "\n".join(s) + "\n"


def check_xstore(ctx, t, u, log):
    k = "k_xstore_%s_%s" % (t.tag, u.tag)
    base = ctx.sandbox_base(log)
    size = 1 << log
    cell = ctx.sym("cell", 64)
    v = ctx.sym("v", u.bits)
    gb = t.gbits // 8
    ctx.assume(z3.UGE(cell, base), z3.ULE(cell - base, BV(size - gb, 64)))
    paths = ctx.run(k, [base, cell, v])
    V = ext(v, u.signed)
    inr = z3.And(V >= t.gmin, V <= t.gmax)
    for p in paths:
        if p.status == "abort":
            ctx.require(p, z3.Not(inr), "store aborts only when the source value is not representable in the guest type of the destination")
        elif p.status == "ret":
            got = z3.Concat(*[z3.Select(p.mem, cell + BV(i, 64)) for i in reversed(range(gb))]) if gb > 1 else z3.Select(p.mem, cell)
            ctx.require(p, z3.And(inr, ext(got, t.signed) == V), "guest cell holds the mathematical value of the source (no silent truncation, wrap or sign change)")
    ctx.only(paths, "ret", "abort")
    ctx.expect(paths, ret=1)
    b0 = 0x300000000 if log == 32 else (0x300000000 + (7 << log))
    ctx.validate(k, [[b0, b0 + 0x40, x] for x in C.boundary_values(u.bits, [t.gmax, t.gmax + 1, t.gmin, t.gmin - 1])], base=b0)


def check_incdec(ctx, t, op, log):
    """++x / --x on a sandbox-resident x is x = x +/- 1 computed in the application's (promoted) type and stored back checked"""
    k = "k_%s_%s" % (op, t.tag)
    base = ctx.sandbox_base(log)
    size = 1 << log
    cell = ctx.sym("cell", 64)
    gb = t.gbits // 8
    ctx.assume(z3.UGE(cell, base), z3.ULE(cell - base, BV(size - gb, 64)))
    mem0 = ctx.eng.initial_memory()
    raw = z3.Concat(*[z3.Select(mem0, cell + BV(i, 64)) for i in reversed(range(gb))]) if gb > 1 else z3.Select(mem0, cell)
    V = ext(raw, t.signed)
    pbits, psigned = (32, True) if t.bits < 32 else (t.bits, t.signed)     # integer promotion of the application type
    R = V + 1 if op == "inc" else V - 1
    ub = z3.BoolVal(False)
    if psigned:
        ub = z3.Or(R > (1 << (pbits - 1)) - 1, R < -(1 << (pbits - 1)))    # signed overflow in the application: undefined, no obligation
    else:
        R = ext(z3.Extract(pbits - 1, 0, R), False)                         # unsigned arithmetic wraps in the application type
    inr = z3.And(R >= t.gmin, R <= t.gmax)
    paths = ctx.run(k, [base, cell])
    for p in paths:
        if p.status == "abort":
            ctx.require(p, z3.Or(ub, z3.Not(inr)), "aborts only when the application-level result does not fit the guest type")
        elif p.status == "ret":
            got = z3.Concat(*[z3.Select(p.mem, cell + BV(i, 64)) for i in reversed(range(gb))]) if gb > 1 else z3.Select(p.mem, cell)
            ctx.require(p, z3.Or(ub, z3.And(inr, ext(got, t.signed) == R)), "guest cell holds exactly the application-level result (never a silently wrapped one)")
    ctx.only(paths, "ret", "abort", "ub")
    ctx.expect(paths, ret=1)


# ------------------------------------------------------------------ sandbox location to sandbox location, different integer types
def vv_source(pairs, sbx):
    s = [C.PRELUDE_SB, "using S = %s;" % sbx]
    for t, u in pairs:
        s.append("K void k_vv_%s_%s(uint64_t base, uint64_t cd, uint64_t cs) { S::g_base = base; auto pd = mk_tainted<%s*, S>(cd); auto ps = mk_tainted<%s*, S>(cs); *pd = *ps; }"
                 % (t.tag, u.tag, t.cxx, u.cxx))
    return "\n".join(s) + "\n"


def check_vv(ctx, t, u, log):
    k = "k_vv_%s_%s" % (t.tag, u.tag)
    base = ctx.sandbox_base(log)
    size = 1 << log
    cd = ctx.sym("cd", 64)
    cs = ctx.sym("cs", 64)
    gd, gs = t.gbits // 8, u.gbits // 8
    ctx.assume(z3.UGE(cd, base), z3.ULE(cd - base, BV(size - 8, 64)), z3.UGE(cs, base), z3.ULE(cs - base, BV(size - 8, 64)))
    ctx.assume(z3.Or(z3.UGE(cd, cs + 8), z3.UGE(cs, cd + 8)))
    mem0 = ctx.eng.initial_memory()
    raw = z3.Concat(*[z3.Select(mem0, cs + BV(i, 64)) for i in reversed(range(gs))]) if gs > 1 else z3.Select(mem0, cs)
    V = ext(raw, u.signed)
    inr = z3.And(V >= t.gmin, V <= t.gmax)
    paths = ctx.run(k, [base, cd, cs])
    for p in paths:
        if p.status == "abort":
            ctx.require(p, z3.Not(inr), "a copy between two sandbox locations aborts only when the source value is not representable in the destination's guest type")
        elif p.status == "ret":
            got = z3.Concat(*[z3.Select(p.mem, cd + BV(i, 64)) for i in reversed(range(gd))]) if gd > 1 else z3.Select(p.mem, cd)
            ctx.require(p, z3.And(inr, ext(got, t.signed) == V), "the destination holds the mathematical value of the source (no silent truncation or sign change)")
    ctx.only(paths, "ret", "abort")
    ctx.expect(paths, ret=1)


def check_range_wide(ctx, t, nmax=3):
    """B32W: copy_and_verify_range of elements that are wider in the guest than in the application: each element is range-checked"""
    k = "k_cavr_%s" % t.tag
    base = ctx.sandbox_base(32)
    p = ctx.sym("p", 64)
    n = ctx.sym("n", 32)
    gb, ab = t.gbits // 8, t.bits // 8
    ctx.assume(z3.UGE(n, 1), z3.ULE(n, nmax))
    ctx.assume(z3.UGE(p, base), z3.ULE(p - base + zext(n, 64) * gb, BV(1 << 32, 64)))
    mem0 = ctx.eng.initial_memory()
    els = [ext(z3.Concat(*[z3.Select(mem0, p + BV(j * gb + i, 64)) for i in reversed(range(gb))]), t.signed) for j in range(nmax)]
    fits = [z3.And(e >= t.min, e <= t.max) for e in els]
    allfit = z3.And(*[z3.Implies(z3.UGT(n, BV(j, 32)), fits[j]) for j in range(nmax)])
    paths = ctx.run(k, [base, p, n])
    for q in paths:
        if q.status == "ret":
            lg = [e for e in (q.user.get("log") or []) if e[0] == 5]
            ctx.require(q, allfit, "a range copy is delivered only when every element is representable in the application type")
            if lg:
                first = lg[0][2] if not isinstance(lg[0][2], int) else BV(lg[0][2], 64)
                ctx.require(q, ext(z3.Extract(t.bits - 1, 0, first), t.signed) == els[0], "the first delivered element has the guest element's value")
        elif q.status == "abort":
            ctx.require(q, z3.Not(allfit), "the range copy aborts only when some element does not fit the application type")
    ctx.only(paths, "ret", "abort", "alloc-fail")
    ctx.expect(paths, ret=1, abort=1)


WIDE = [C.IT("int", "int", 32, True, 64), C.IT("uint", "unsigned int", 32, False, 64), C.IT("short", "short", 16, True, 32), C.IT("ushort", "unsigned short", 16, False, 32)]


def check_load_wide(ctx, t):
    """B32W: the guest type is wider than the application's: loading narrows and must be checked"""
    k = "k_load_%s" % t.tag
    base = ctx.sandbox_base(32)
    cell = ctx.sym("cell", 64)
    gb = t.gbits // 8
    ctx.assume(z3.UGE(cell, base), z3.ULE(cell - base, BV((1 << 32) - gb, 64)))
    paths = ctx.run(k, [base, cell])
    mem0 = ctx.eng.initial_memory()
    raw = z3.Concat(*[z3.Select(mem0, cell + BV(i, 64)) for i in reversed(range(gb))])
    G = ext(raw, t.signed)
    fits = z3.And(G >= t.min, G <= t.max)
    for p in paths:
        if p.status == "ret":
            ctx.require(p, z3.And(fits, ext(p.ret, t.signed) == G), "a value read from the sandbox keeps its mathematical value in the narrower application type")
        elif p.status == "abort":
            ctx.require(p, z3.Not(fits), "loading aborts only when the sandbox value is not representable in the application type")
    ctx.only(paths, "ret", "abort")
    ctx.expect(paths, ret=1, abort=1)


def check_store_wide(ctx, t):
    k = "k_store_%s" % t.tag
    base = ctx.sandbox_base(32)
    cell = ctx.sym("cell", 64)
    v = ctx.sym("v", t.bits)
    gb = t.gbits // 8
    ctx.assume(z3.UGE(cell, base), z3.ULE(cell - base, BV((1 << 32) - gb, 64)))
    paths = ctx.run(k, [base, cell, v])
    for p in paths:
        if p.status == "ret":
            got = z3.Concat(*[z3.Select(p.mem, cell + BV(i, 64)) for i in reversed(range(gb))])
            ctx.require(p, ext(got, t.signed) == ext(v, t.signed), "widening store keeps the value")
    ctx.only(paths, "ret")
    ctx.expect(paths, ret=1)


def check_cb_wide(ctx):
    b0 = ctx.sandbox_base(32, "b0", aligned=False)
    x = ctx.sym("x", 32)
    ctx.assume(x == 0)
    paths = ctx.run("k_cb_wide_args", [b0, x])
    nbody = 0
    for q in paths:
        env = dict((t, v) for (t, v) in (q.user.get("env") or []))
        v, u = env.get(44), env.get(45)
        body = [e for e in (q.user.get("log") or []) if e[0] == 20]
        as_bv = lambda t: BV(t, 64) if isinstance(t, int) else t
        if body:
            nbody += 1
            ctx.require(q, z3.And(as_bv(body[0][1]) == v, as_bv(body[0][2]) == u),
                        "the callback observes exactly the guest's argument values (signed 64-bit guest int, unsigned 64-bit guest unsigned) or is not entered")
        elif q.status == "abort" and v is not None and u is not None:
            fits = z3.And(v >= BV(-(1 << 31), 64), v <= BV((1 << 31) - 1, 64), z3.ULE(u, BV(0xFFFFFFFF, 64)))
            ctx.require(q, z3.Not(fits), "the crossing is refused only for a value the application type cannot represent")
    ctx.only(paths, "ret", "abort")
    ctx.expect(paths, ret=1, abort=1)
    if nbody == 0:
        ctx.inconclusive.append("callback body never reached")


def check_wide_result(ctx, k, tag, signed):
    b0 = ctx.sandbox_base(32, "b0", aligned=False)
    paths = ctx.run(k, [b0])
    for q in paths:
        env = dict((t, v) for (t, v) in (q.user.get("env") or []))
        v = env.get(tag)
        if v is None:
            ctx.fail(q, "the guest function did not run")
            continue
        fits = z3.And(v >= BV(-(1 << 31), 64), v <= BV((1 << 31) - 1, 64)) if signed else z3.ULE(v, BV(0xFFFFFFFF, 64))
        if q.status == "ret":
            ctx.require(q, z3.And(fits, q.ret == v), "the application receives exactly the value the guest returned")
        elif q.status == "abort":
            ctx.require(q, z3.Not(fits), "the result is refused only when the application type cannot represent it")
    ctx.only(paths, "ret", "abort")
    ctx.expect(paths, ret=1, abort=1)


def jobs(tier, seed):
    out = []
    out.append(Job("C06_result_wide", '#include "C06_cbwide.inc"\n', [dict(name="BM wide guest int: result of a sandbox function (int)", fn=check_wide_result, kw=dict(k="k_wide_result_int", tag=46, signed=True), unwind=300),
                                                                      dict(name="BM wide guest int: result of a sandbox function (unsigned)", fn=check_wide_result, kw=dict(k="k_wide_result_uint", tag=47, signed=False), unwind=300)],
                   native=False))
    out.append(Job("C06_cb_wide", '#include "C06_cbwide.inc"\n', [dict(name="BM wide guest int: callback arguments narrow faithfully or are refused", fn=check_cb_wide, unwind=300)], native=False))
    froms = C.ALL_INTS + [C.BOOL]
    for to in C.ALL_INTS:
        out.append(Job("C06_scalar_" + to.tag, scalar_source(to, froms),
                       [dict(name="conv %s<-%s" % (to.tag, f.tag), fn=check_scalar, kw=dict(to=to, frm=f)) for f in froms],
                       flags=["-fno-exceptions"]))
    # configuration: RLBOX_USE_EXCEPTIONS requested but the TU is built without exception support - a refused conversion
    # must still stop (the abort fallback), never fall through to the cast
    for to in (C.ALL_INTS if tier == "thorough" else C.ALL_INTS[::4]):
        out.append(Job("C06_scalar_noexc_" + to.tag, scalar_source(to, froms),
                       [dict(name="conv %s<-%s [RLBOX_USE_EXCEPTIONS, -fno-exceptions]" % (to.tag, f.tag), fn=check_scalar, kw=dict(to=to, frm=f)) for f in froms],
                       flags=["-fno-exceptions", "-DRLBOX_USE_EXCEPTIONS"]))
    fw8 = {t.tag: t for t in C.FW}
    pq = [("i32", "i64"), ("u32", "u64"), ("i64", "i32"), ("i32", "i32"), ("u32", "i32"), ("i32", "u32")]
    shapes_q = {("i32", "i64"): [(3,), (2, 3)], ("u32", "i32"): [(3,), (2, 2)]}
    pt = pq + [("u8", "i16"), ("i8", "u8"), ("u64", "i64"), ("i16", "u64"), ("u16", "u16"), ("i64", "u32")]
    pairs = [(fw8[a], fw8[b]) for a, b in (pt if tier == "thorough" else pq)]
    shapes = [(3,), (2, 2)] if tier == "thorough" else [(3,)]
    for grp in C.chunks(pairs, 6):
        shp = {(a.tag, b.tag): (shapes if tier == "thorough" else shapes_q.get((a.tag, b.tag), shapes)) for a, b in grp}
        allshapes = sorted(set(x for v in shp.values() for x in v))
        out.append(Job("C06_arr_" + grp[0][0].tag + grp[0][1].tag, array_source(grp, allshapes),
                       [dict(name="arr %s<-%s %s" % (a.tag, b.tag, s), fn=check_array, kw=dict(to=a, frm=b, shape=s))
                        for a, b in grp for s in shp[(a.tag, b.tag)]], flags=["-fno-exceptions"]))
    backends = [("B32", 32)] + ([("B16", 16)] if tier == "thorough" else [])
    for sbx, log in backends:
        for grp in C.chunks(C.TAINTABLE_INTS, 4):
            chks = []
            for t in grp:
                chks.append(dict(name="%s store %s" % (sbx, t.tag), fn=check_store, kw=dict(t=t, log=log, variant="store")))
                chks.append(dict(name="%s store-tainted %s" % (sbx, t.tag), fn=check_store, kw=dict(t=t, log=log, variant="storet")))
                chks.append(dict(name="%s load %s" % (sbx, t.tag), fn=check_load, kw=dict(t=t, log=log)))
                chks.append(dict(name="%s sandboxed %s" % (sbx, t.tag), fn=check_sbxd, kw=dict(t=t, log=log)))
            out.append(Job("C06_e2e_%s_%s" % (sbx, grp[0].tag), e2e_source(grp, sbx), chks))
    by = {t.tag: t for t in C.STD_INTS}
    dsts = [by[x] for x in (("schar", "uchar", "short", "ushort", "int", "uint", "long", "ulong", "llong", "ullong") if tier == "thorough" else ("uchar", "short", "int", "uint", "long", "ulong"))]
    srcs = [by[x] for x in (("schar", "uchar", "short", "ushort", "int", "uint", "long", "ulong", "llong", "ullong") if tier == "thorough" else ("schar", "int", "uint", "llong", "ulong"))]
    for t in dsts:
        chks = [dict(name="B32 store %s <- plain %s" % (t.tag, u.tag), fn=check_xstore, kw=dict(t=t, u=u, log=32)) for u in srcs if u.tag != t.tag]
        chks += [dict(name="B32 %s on sandbox-resident %s" % (op, t.tag), fn=check_incdec, kw=dict(t=t, op=op, log=32)) for op in ("inc", "dec")]
        out.append(Job("C06_x_B32_" + t.tag, x_source([t], srcs, "B32"), chks))
    vvp = [(by[a], by[b]) for a, b in (("long", "llong"), ("ulong", "llong"), ("short", "long"), ("int", "uint"), ("uchar", "int"), ("llong", "ulong"), ("uint", "short"), ("long", "long"))]
    if tier == "thorough":
        vvp = [(a, b) for a in dsts for b in dsts]
    for grp in C.chunks(vvp, 8):
        out.append(Job("C06_vv_%s_%s" % (grp[0][0].tag, grp[0][1].tag), vv_source(grp, "B32"),
                       [dict(name="B32 *p_%s = *p_%s" % (t.tag, u.tag), fn=check_vv, kw=dict(t=t, u=u, log=32)) for t, u in grp], native=False))
    wr = ("#include \"verif_sandbox.hpp\"\nusing S = B32W;\n#include \"rbtree_model.cpp\"\nusing namespace rlbox;\n" +
          "".join("K uint64_t k_cavr_%s(uint64_t base, uint64_t p, uint32_t n) { S::g_base = base; auto t = mk_tainted<%s*, S>(p); "
                  "return (uint64_t)t.copy_and_verify_range([](std::unique_ptr<%s[]> v) { env_log(5, (uint64_t)v.get(), v ? (uint64_t)v[0] : 0, 0); return v ? v[0] : 0; }, n); }\n"
                  % (t.tag, t.cxx, t.cxx) for t in WIDE))
    out.append(Job("C06_B32W_range", wr, [dict(name="B32W copy_and_verify_range %s (narrowing per element)" % t.tag, fn=check_range_wide, kw=dict(t=t), unwind=12) for t in WIDE], native=False))
    wchk = []
    for t in WIDE:
        wchk += [dict(name="B32W load %s (narrowing)" % t.tag, fn=check_load_wide, kw=dict(t=t)), dict(name="B32W store %s (widening)" % t.tag, fn=check_store_wide, kw=dict(t=t))]
    out.append(Job("C06_e2e_B32W", e2e_source(WIDE, "B32W").replace('static_assert(sizeof(r) == ', 'static_assert(sizeof(r) >= '), wchk, native=False))
    # arguments and results of invocations and callbacks (the kernels and oracles of C11/C12, value clause only)
    from specs import C11, C12
    fl = ["-D_GLIBCXX_EXTERN_TEMPLATE=0"]
    src11 = C11.gen_source()
    items = [dict(name="invoke %s %s" % (n, f), fn=C11.check_sig, kw=dict(name=n, form=f), unwind=300) for n in ("s1", "s3", "s6") for f in ("plain", "tainted")]
    for i in range(3):
        out.append(Job("C06_invoke_%d" % i, src11, items[i::3], flags=fl))
    # the by-value struct path (a narrowing member inside a struct whose total size does not change) and verified copies through
    # a pointer: same kernels and oracles as C08 / C07, integer clauses
    from specs import C07, C08
    for j in C08.jobs("quick", seed):
        if j.name in ("C08_B32_S6", "C08_B32_S7"):
            keep = [c for c in j.checks if any(x in c["name"] for x in ("store", "load", "by-value"))]
            out.append(Job(j.name.replace("C08_", "C06_struct_"), j.source, keep, flags=j.flags, unwind=j.unwind, compare_logs=j.compare_logs, native=j.want_native))
    for j in C07.jobs("quick", seed):
        keep = [c for c in j.checks if c["name"] in ("B32 cav long", "B32 cav ulong", "B32 cav short", "B32 cav llong", "B32 k_store_arr_llong3", "B32 k_load_arr_llong3",
                                                       "B32 k_store_elem_llong", "B32 k_store_arr_long3", "B32 k_load_arr_long3")]
        if keep:
            out.append(Job(j.name.replace("C07_", "C06_cav_"), j.source, keep, flags=j.flags, unwind=j.unwind, compare_logs=j.compare_logs, native=j.want_native))
    out.append(Job("C06_callback", '#include "C12_bm.inc"\n', [dict(name="callback long(long) argument and result", fn=C12.check_bm_long, kw=dict(k="k_bm_cb_long"), unwind=200)]))
    return out
