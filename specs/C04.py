"""C04 - pointer representation conversion is faithful, null-preserving and per-sandbox."""
import z3
from specs.common import *  # noqa: F401,F403
from specs import common as C

META = {
    "level": "model_checking",
    "bounds": {
        "quick": "single-instance B32: 4 translation entry points, convert_type in 4 direction x context combinations, arrays of 3 pointers, "
                 "pointer cell / pointer array / struct field store+load, free; multi-instance BM: 3 sandbox objects, all 6 creation orders x 7 "
                 "destroy choices (1..3 live), store/load/null of a pointer cell in any live sandbox; bases, offsets (all 2^32), values symbolic",
        "thorough": "same plus B16",
    },
    "outside": "more than 3 simultaneously live sandboxes; function-pointer representations (backend specific)",
    "assumptions": ["guest offset 0 is the guest's null: round trips quantify over addresses base < a < base+SIZE and representations r != 0, and 0 <-> null separately",
                    "regions of distinct sandboxes are pairwise disjoint"],
}


def rep_of(a, base, bits):
    bits = min(bits, 64)
    return z3.If(a == 0, BV(0, 64), zext(z3.Extract(bits - 1, 0, a - base), 64))


def addr_of(rep, base):
    return z3.If(rep == 0, BV(0, 64), base + rep)


def sbx_cell(ctx, p, addr, nbytes):
    return z3.Concat(*[z3.Select(p.mem, addr + BV(i, 64)) for i in reversed(range(nbytes))]) if nbytes > 1 else z3.Select(p.mem, addr)


def check_single(ctx, k, log, pb=None):
    pb = pb or log // 8
    rbits = 8 * pb
    base = ctx.sandbox_base(log)
    size = 1 << log
    b0 = 0x300000000 if log == 32 else 0x300000000 + (6 << log)
    inreg = lambda x: ctx.in_region(x, base, size)
    nn_in = lambda x: z3.And(z3.UGT(x, base), z3.ULT(x - base, BV(size, 64)))    # inside, not guest offset 0
    mem0 = ctx.eng.initial_memory()
    args = [base]
    obl = None
    vec = None
    mem = None

    def S(nm, cond=None):
        v = ctx.sym(nm, 64)
        if cond is not None:
            ctx.assume(cond(v))
        args.append(v)
        return v
    repc = lambda v: z3.ULT(v, BV(size, 64))
    ptrc = lambda v: z3.Or(v == 0, nn_in(v))
    cellc = lambda room: (lambda v: z3.And(z3.UGE(v, base), z3.ULE(v - base, BV(size - room, 64))))
    if k in ("k_unsbx_ctx", "k_conv_to_app_ctx"):
        r = S("rep", repc)
        obl = lambda q: ("representation -> address: 0 -> null, else base+rep", q.ret == addr_of(r, base))
        vec = [[b0, x] for x in (0, 1, size - 1, 0x1234 % size)]
    elif k in ("k_sbx_ctx", "k_conv_to_sbx_ctx"):
        a = S("addr", ptrc)
        obl = lambda q: ("address -> representation: null -> 0, else addr-base", zext(z3.Extract(rbits - 1, 0, q.ret), 64) == rep_of(a, base, rbits))
        vec = [[b0, x] for x in (0, b0 + 1, b0 + size - 1, b0 + 0x1234 % size)]
    elif k in ("k_unsbx_noctx", "k_conv_to_app_ex"):
        r = S("rep", repc)
        ex = S("ex", inreg)
        obl = lambda q: ("context-free representation -> address relative to the example's sandbox", q.ret == addr_of(r, base))
        vec = [[b0, x, b0 + 0x10] for x in (0, 1, size - 1)]
    elif k in ("k_sbx_noctx", "k_conv_to_sbx_ex"):
        a = S("addr", ptrc)
        ex = S("ex", inreg)
        obl = lambda q: ("context-free address -> representation", zext(z3.Extract(rbits - 1, 0, q.ret), 64) == rep_of(a, base, rbits))
        vec = [[b0, x, b0 + 0x10] for x in (0, b0 + 1, b0 + size - 1)]
    elif k == "k_roundtrip_addr":
        a = S("addr", ptrc)
        obl = lambda q: ("unsandbox(sandbox(a)) == a", q.ret == a)
        vec = [[b0, x] for x in (0, b0 + 1, b0 + size - 1)]
    elif k == "k_roundtrip_rep":
        r = S("rep", repc)
        obl = lambda q: ("sandbox(unsandbox(r)) == r", zext(z3.Extract(rbits - 1, 0, q.ret), 64) == r)
        vec = [[b0, x] for x in (0, 1, size - 1)]
    elif k == "k_conv_arr_to_app":
        rs = [S("r%d" % i, repc) for i in range(3)]
        obl = lambda q: ("every element of an array of pointers converted", z3.And(*[q.user["log"][0][1 + i] == addr_of(rs[i], base) for i in range(3)]))
        vec = [[b0, 0, 1, size - 1], [b0, 5, 0, 7]]
    elif k == "k_conv_arr_to_sbx":
        as_ = [S("a%d" % i, ptrc) for i in range(3)]
        obl = lambda q: ("every element of an array of pointers converted", z3.And(*[q.user["log"][0][1 + i] == rep_of(as_[i], base, rbits) for i in range(3)]))
        vec = [[b0, 0, b0 + 1, b0 + size - 1], [b0, b0 + 5, 0, b0 + 7]]
    elif k == "k_store_ptr":
        c = S("cell", cellc(pb))
        v = S("v", ptrc)
        obl = lambda q: ("stored cell holds the representation of the pointer", zext(sbx_cell(ctx, q, c, pb), 64) == rep_of(v, base, rbits))
        vec = [[b0, b0 + 0x40, x] for x in (0, b0 + 1, b0 + size - 1)]
    elif k == "k_store_null":
        c = S("cell", cellc(pb))
        obl = lambda q: ("null stored as 0", sbx_cell(ctx, q, c, pb) == 0)
        vec = [[b0, b0 + 0x40]]
    elif k == "k_load_ptr":
        c = S("cell", cellc(pb))
        raw = zext(z3.Concat(*[z3.Select(mem0, c + BV(i, 64)) for i in reversed(range(pb))]), 64)
        ctx.assume(z3.ULT(raw, BV(size, 64)))
        obl = lambda q: ("loaded pointer is the translation of the cell content", q.ret == addr_of(raw, base))
        vec = [[b0, b0 + 0x40]]
        mem = {b0 + 0x40 + i: 0x21 + i for i in range(8)}
    elif k == "k_copy_ptr_cell":
        d = S("dst", cellc(pb))
        s_ = S("src", cellc(pb))
        raw = z3.Concat(*[z3.Select(mem0, s_ + BV(i, 64)) for i in reversed(range(pb))])
        obl = lambda q: ("sandbox-to-sandbox pointer copy keeps the representation", sbx_cell(ctx, q, d, pb) == raw)
        vec = [[b0, b0 + 0x40, b0 + 0x80]]
        mem = {b0 + 0x80 + i: 0x31 + i for i in range(8)}
    elif k == "k_store_ptr_arr":
        c = S("cell", cellc(3 * pb))
        as_ = [S("a%d" % i, ptrc) for i in range(3)]
        obl = lambda q: ("each element of a stored pointer array holds its representation",
                         z3.And(*[zext(sbx_cell(ctx, q, c + BV(i * pb, 64), pb), 64) == rep_of(as_[i], base, rbits) for i in range(3)]))
        vec = [[b0, b0 + 0x40, 0, b0 + 1, b0 + size - 1]]
    elif k == "k_load_ptr_arr":
        c = S("cell", cellc(3 * pb))
        raws = [zext(z3.Concat(*[z3.Select(mem0, c + BV(i * pb + j, 64)) for j in reversed(range(pb))]), 64) for i in range(3)]
        ctx.assume(*[z3.ULT(r_, BV(size, 64)) for r_ in raws])
        obl = lambda q: ("each element of a loaded pointer array is translated", z3.And(*[q.user["log"][0][1 + i] == addr_of(raws[i], base) for i in range(3)]))
        vec = [[b0, b0 + 0x40]]
        mem = {b0 + 0x40 + i: (0x11 * i) & 0xFF for i in range(12)}
    elif k == "k_store_struct":
        p_ = S("p", cellc(12))
        a = ctx.sym("a", 64)
        args.append(a)
        ctx.assume(sext(a, 128) >= -(1 << 31), sext(a, 128) < (1 << 31))
        b = S("b", ptrc)
        cc = ctx.sym("c", 32)
        args.append(cc)
        boff = 4
        obl = lambda q: ("struct pointer field stored as its representation, neighbours hold their own fields",
                         z3.And(zext(sbx_cell(ctx, q, p_ + BV(boff, 64), pb), 64) == rep_of(b, base, rbits),
                                sbx_cell(ctx, q, p_, 4) == z3.Extract(31, 0, a),
                                sbx_cell(ctx, q, p_ + BV(8, 64), 4) == cc))
        vec = [[b0, b0 + 0x40, 5, b0 + 0x1000, 7], [b0, b0 + 0x40, 0xFFFFFFFFFFFFFFFF, 0, 0xFFFFFFFF]]
    elif k == "k_load_struct":
        p_ = S("p", cellc(12))
        boff = 4
        raw = zext(z3.Concat(*[z3.Select(mem0, p_ + BV(boff + j, 64)) for j in reversed(range(pb))]), 64)
        obl = lambda q: ("struct pointer field loaded relative to the struct's sandbox", q.user["log"][0][2] == addr_of(raw, base))
        vec = [[b0, b0 + 0x40]]
        mem = {b0 + 0x40 + i: (0x13 * (i + 1)) & 0xFF for i in range(12)}
    elif k == "k_free":
        p_ = S("p", ptrc)
        obl = lambda q: ("backend free receives the representation of the pointer",
                         z3.And(len([e for e in q.user["log"] if e[0] == 0x102]) == 1,
                                [e for e in q.user["log"] if e[0] == 0x102][0][1] == rep_of(p_, base, rbits)))
        vec = [[b0, 0], [b0, b0 + 0x40]]
    elif k == "k_free_vol":
        c = S("cell", cellc(pb))
        raw = zext(z3.Concat(*[z3.Select(mem0, c + BV(i, 64)) for i in reversed(range(pb))]), 64)
        ctx.assume(z3.ULT(raw, BV(size, 64)))
        obl = lambda q: ("free through a sandbox-resident pointer passes the stored representation",
                         [e for e in q.user["log"] if e[0] == 0x102][0][1] == raw)
        vec = [[b0, b0 + 0x40]]
        mem = {b0 + 0x40 + i: 0x41 + i for i in range(8)}
    else:
        raise Inconclusive("no spec for " + k)
    if (log == 16 or pb == 8) and k in ("k_store_struct", "k_load_struct"):
        raise Inconclusive("struct layout differs on B16; kernel not scheduled")
    paths = ctx.run(k, args)
    for q in paths:
        if q.status == "ret":
            what, cond = obl(q)
            ctx.require(q, cond, what)
    ctx.only(paths, "ret")
    ctx.expect(paths, ret=1)
    if vec:
        ctx.validate(k, vec, mem=mem, base=b0)


SINGLE = ["k_unsbx_ctx", "k_sbx_ctx", "k_unsbx_noctx", "k_sbx_noctx", "k_roundtrip_addr", "k_roundtrip_rep", "k_conv_to_app_ctx",
          "k_conv_to_sbx_ctx", "k_conv_to_app_ex", "k_conv_to_sbx_ex", "k_conv_arr_to_app", "k_conv_arr_to_sbx", "k_store_ptr", "k_store_null",
          "k_load_ptr", "k_copy_ptr_cell", "k_store_ptr_arr", "k_load_ptr_arr", "k_store_struct", "k_load_struct", "k_free", "k_free_vol"]


def check_null_paths(ctx, k, log, pb):
    base = ctx.sandbox_base(log)
    size = 1 << log
    if k == "k_malloc_rep":
        count = ctx.sym("count", 32)
        ctx.assume(z3.UGE(count, 1), z3.ULE(count, 64))
        paths = ctx.run(k, [base, count])
        for q in paths:
            if q.status == "ret":
                env = [v for (t, v) in (q.user.get("env") or []) if t == 0x100]
                rep = z3.Extract(8 * pb - 1, 0, env[0]) if env else None
                ctx.require(q, z3.And(z3.Implies(rep == 0, q.ret == 0), z3.Implies(rep != 0, q.ret == base + zext(rep, 64))) if env else z3.BoolVal(False),
                            "an allocator result of 0 (out of memory) is the null pointer, any other representation is base + representation")
        ctx.only(paths, "ret", "abort")
        ctx.expect(paths, ret=1)
    else:
        p = ctx.sym("p", 64)
        ctx.assume(z3.Or(p == 0, z3.And(z3.UGT(p, base), z3.ULT(p - base, BV(size, 64)))))
        paths = ctx.run(k, [base, p])
        for q in paths:
            if q.status == "ret":
                lg = [e for e in (q.user.get("log") or []) if e[0] == 9]
                bvx = lambda v: v if not isinstance(v, int) else BV(v, 64)
                rp = rep_of(p, base, 8 * pb)
                ctx.require(q, z3.And(z3.BoolVal(len(lg) == 2), bvx(lg[0][1]) == 0, bvx(lg[0][2]) == rp, bvx(lg[1][1]) == rp, bvx(lg[1][2]) == 0, q.ret == 0)
                            if len(lg) == 2 else z3.BoolVal(False),
                            "a literal nullptr argument reaches the guest as 0 in every position; a null result comes back as null")
        ctx.only(paths, "ret")
        ctx.expect(paths, ret=1)


# ------------------------------------------------------------------ multi-instance
def bm_pre(ctx):
    size = 1 << 32
    bs = [ctx.sandbox_base(32, "b%d" % i, aligned=False) for i in range(3)]
    for i in range(3):
        for j in range(i + 1, 3):      # regions pairwise disjoint
            ctx.assume(z3.Or(z3.UGE(bs[i] - bs[j], BV(size, 64)), z3.UGE(bs[j] - bs[i], BV(size, 64))),
                       z3.Or(z3.UGE(bs[i], bs[j] + BV(size, 64)), z3.UGE(bs[j], bs[i] + BV(size, 64))))
    order = ctx.sym("order", 32)
    destroy = ctx.sym("destroy", 32)
    ctx.assume(z3.ULT(order, 6), z3.ULT(destroy, 7))
    dead = lambda i: z3.Or(*[destroy == d for d in {0: (1, 4, 6), 1: (2, 4, 5), 2: (3, 5, 6)}[i]])
    return bs, order, destroy, dead, size


def check_bm(ctx, k, cross=False):
    bs, order, destroy, dead, size = bm_pre(ctx)
    cell = ctx.sym("cell", 64)
    owner = [z3.And(z3.UGE(cell, bs[i]), z3.ULE(cell - bs[i], BV(size - 4, 64)), z3.Not(dead(i))) for i in range(3)]
    ctx.assume(z3.Or(*owner))
    ob = z3.If(owner[0], bs[0], z3.If(owner[1], bs[1], bs[2]))
    args = [bs[0], bs[1], bs[2], order, destroy, cell]
    mem0 = ctx.eng.initial_memory()
    B = [0x300000000, 0x500000000, 0x900000000]
    if k == "k_bm_store_load":
        v = ctx.sym("v", 64)
        if cross:
            # the value may point into ANOTHER live sandbox: the cell's owner still decides the translation
            ctx.assume(z3.Or(*[z3.And(z3.UGT(v, bs[i]), z3.ULT(v - bs[i], BV(size, 64)), z3.Not(dead(i))) for i in range(3)]))
        else:
            ctx.assume(z3.Or(v == 0, z3.And(z3.UGT(v, ob), z3.ULT(v - ob, BV(size, 64)))))
        args.append(v)
        paths = ctx.run(k, args)
        for q in paths:
            if q.status == "ret":
                lg = q.user["log"]
                stored = [e for e in lg if e[0] == 1][0][1]
                back = v if not cross else addr_of(rep_of(v, ob, 32), ob)
                ctx.require(q, z3.And(stored == rep_of(v, ob, 32), q.ret == back),
                            "pointer stored into sandbox i's memory is encoded and decoded relative to sandbox i, whatever other sandboxes are live")
        vecs = [[B[0], B[1], B[2], o, d, B[1] + 0x40, B[1] + 0x1234] for o in range(6) for d in (0, 1, 3, 6)]
        vecs += [[B[0], B[1], B[2], 5, 0, B[2] + 0x40, 0], [B[2], B[0], B[1], 3, 2, B[2] + 0x40, B[2] + 0xFFFFFFFF]]
    elif k == "k_bm_load":
        raw = zext(z3.Concat(*[z3.Select(mem0, cell + BV(i, 64)) for i in reversed(range(4))]), 64)
        paths = ctx.run(k, args)
        for q in paths:
            if q.status == "ret":
                ctx.require(q, q.ret == addr_of(raw, ob), "pointer read from sandbox i's memory is decoded relative to sandbox i")
        vecs = [[B[0], B[1], B[2], o, d, B[0] + 0x40] for o in range(6) for d in (0, 2, 5)]
    else:
        paths = ctx.run(k, args)
        for q in paths:
            if q.status == "ret":
                stored = [e for e in q.user["log"] if e[0] == 1][0][1]
                ctx.require(q, z3.And(stored == 0, q.ret == 0), "null stored as 0 and read back as null")
        vecs = [[B[0], B[1], B[2], o, 0, B[2] + 0x40] for o in range(6)]
    ctx.only(paths, "ret")
    ctx.expect(paths, ret=6)
    ctx.extra_maps = []
    # native: map all three regions
    ctx.validate_multi = True
    validate_bm(ctx, k, vecs, B)


def check_bm_failed(ctx):
    size = 1 << 32
    b0 = ctx.sandbox_base(32, "b0", aligned=False)
    b1 = ctx.sandbox_base(32, "b1", aligned=False)
    cell = ctx.sym("cell", 64)
    v = ctx.sym("v", 64)
    ctx.assume(z3.UGE(cell, b1), z3.ULE(cell - b1, BV(size - 4, 64)))
    ctx.assume(z3.Or(v == 0, z3.And(z3.UGT(v, b1), z3.ULT(v - b1, BV(size, 64)))))
    paths = ctx.run("k_bm_failed_create", [b0, b1, cell, v])
    nfail = 0
    for q in paths:
        if q.status != "ret":
            continue
        env = [x for (t, x) in (q.user.get("env") or [])]
        lg = [e for e in q.user["log"] if e[0] == 1][0]
        ok0 = lg[2] if not isinstance(lg[2], int) else BV(lg[2], 64)
        failed = ok0 == 0
        if ctx.eng.check_sat(q.pc + [failed])[0] == "sat":
            nfail += 1
        good = z3.And(lg[1] == rep_of(v, b1, 32), q.ret == v)
        # the failed object has no memory: its range may coincide with the live sandbox's in any way
        ctx.require(q, z3.Implies(failed, good), "after a failed creation attempt, pointers in the live sandbox are translated relative to the live sandbox")
        disj = z3.And(z3.Or(z3.UGE(b0 - b1, BV(size, 64)), z3.UGE(b1 - b0, BV(size, 64))), z3.Or(z3.UGE(b0, b1 + BV(size, 64)), z3.UGE(b1, b0 + BV(size, 64))))
        ctx.require(q, z3.Implies(z3.And(z3.Not(failed), disj), good), "two live sandboxes: translated relative to the cell's owner")
    if nfail == 0:
        ctx.inconclusive.append("k_bm_failed_create: no path with a failed creation")
    ctx.only(paths, "ret", "abort")
    ctx.expect(paths, ret=2)


def check_bm_two_types(ctx):
    size = 1 << 32
    b0 = ctx.sandbox_base(32, "b0", aligned=False)
    b2 = ctx.sandbox_base(32, "b2", aligned=False)
    ctx.assume(z3.Or(z3.UGE(b0, b2 + BV(size, 64)), z3.UGE(b2, b0 + BV(size, 64))))
    cell = ctx.sym("cell", 64)
    v = ctx.sym("v", 64)
    pad0 = ctx.sym("pad0", 64)
    pad1 = ctx.sym("pad1", 64)
    order = ctx.sym("order", 32)
    ctx.assume(z3.ULE(order, 1), z3.UGE(cell, b0), z3.ULE(cell - b0, BV(size - 4, 64)), z3.Or(v == 0, z3.And(z3.UGT(v, b0), z3.ULT(v - b0, BV(size, 64)))))
    paths = ctx.run("k_bm_two_types", [b0, b2, cell, v, pad0, pad1, order])
    for q in paths:
        if q.status != "ret":
            ctx.fail(q, "a translation in a live sandbox ended %s (%s) because a sandbox of another plugin type is alive" % (q.status, q.info))
            continue
        lg = [e for e in q.user["log"] if e[0] == 1][0]
        ctx.require(q, z3.And(lg[1] == rep_of(v, b0, 32), q.ret == v),
                    "with a sandbox of another plugin type alive (any object bytes, either creation order) pointers are translated relative to their own sandbox")
    ctx.expect(paths, ret=2)


def check_bm_cmp_tv(ctx):
    size = 1 << 32
    b0 = ctx.sandbox_base(32, "b0", aligned=False)
    cell = ctx.sym("cell", 64)
    cell2 = ctx.sym("cell2", 64)
    v = ctx.sym("v", 64)
    ctx.assume(z3.UGE(cell, b0), z3.ULE(cell - b0, BV(size - 4, 64)), z3.UGE(cell2, b0), z3.ULE(cell2 - b0, BV(size - 4, 64)))
    ctx.assume(z3.Or(v == 0, z3.And(z3.UGT(v, b0), z3.ULT(v - b0, BV(size, 64)))))
    mem0 = ctx.eng.initial_memory()
    rd = lambda c_: z3.Concat(*[z3.Select(mem0, c_ + BV(i, 64)) for i in reversed(range(4))])
    A = z3.If(rd(cell) == 0, BV(0, 64), b0 + zext(rd(cell), 64))
    B = z3.If(rd(cell2) == 0, BV(0, 64), b0 + zext(rd(cell2), 64))
    paths = ctx.run("k_bm_cmp_tv", [b0, cell, v, cell2])
    bit = lambda c_: z3.If(c_, BV(1, 64), BV(0, 64))
    for q in paths:
        if q.status != "ret":
            ctx.fail(q, "comparing a tainted pointer with a sandbox-resident pointer ended %s (%s)" % (q.status, q.info))
            continue
        want = bit(v == A) | (bit(A == v) << 1) | (bit(v != A) << 2) | (bit(A == B) << 3)
        ctx.require(q, q.ret == want, "== and != with a sandbox-resident pointer on either side compare the addresses obtained by translating relative to the owning sandbox")
    ctx.expect(paths, ret=1)


def check_bm_after_dead(ctx):
    size = 1 << 32
    bx = ctx.sandbox_base(32, "bx", aligned=False)
    by = ctx.sandbox_base(32, "by", aligned=False)
    cellx = ctx.sym("cellx", 64)
    celly = ctx.sym("celly", 64)
    v = ctx.sym("v", 64)
    ctx.assume(z3.UGE(cellx, bx), z3.ULE(cellx - bx, BV(size - 4, 64)), z3.UGE(celly, by), z3.ULE(celly - by, BV(size - 4, 64)))
    ctx.assume(z3.Or(v == 0, z3.And(z3.UGT(v, by), z3.ULT(v - by, BV(size, 64)))))
    paths = ctx.run("k_bm_after_dead_lookup", [bx, by, cellx, celly, v])
    for q in paths:
        if q.status == "ret":
            lg = [e for e in q.user["log"] if e[0] == 1][0]
            ctx.require(q, z3.And(lg[1] == rep_of(v, by, 32), q.ret == v),
                        "a destroyed sandbox is never consulted again: pointers in the new sandbox are translated relative to the new sandbox, wherever it lies")
    ctx.only(paths, "ret")
    ctx.expect(paths, ret=1)


def validate_bm(ctx, k, vecs, B):
    # map three regions natively: reuse Ctx.validate with a custom mapping via mem pokes is not enough; build cases by hand
    if ctx.native is None:
        return
    import fw
    cases, eouts = [], []
    for vec in vecs:
        lines = ["map %x %x" % (b, 1 << 32) for b in B]
        cell = vec[5]
        lines.append("poke %x %s" % (cell, "78563412"))
        lines.append("call %s %s" % (k, " ".join("%x" % fw.native_arg(ctx.eng, k, i, a) for i, a in enumerate(vec))))
        cases.append(lines)
        st = ctx.init_state()
        for i, byte in enumerate((0x78, 0x56, 0x34, 0x12)):
            st.mem = z3.Store(st.mem, BV(cell + i, 64), BV(byte, 8))
        fn = ctx.eng.m.funcs[k]
        cargs = [BV(a & ((1 << ctx.eng.bits_of(t)) - 1), ctx.eng.bits_of(t)) for (t, pn), a in zip(fn.params, vec)]
        eouts.append([q for q in ctx.eng.run(k, cargs, state=st) if q.status != "infeasible"])
    nouts = ctx.native.run_cases(cases)
    s = z3.Solver()
    s.check()
    m = s.model()
    for vec, ps, no in zip(vecs, eouts, nouts):
        if len(ps) != 1:
            ctx.mismatches.append({"kernel": k, "vec": [hex(v) for v in vec], "why": "engine paths %d" % len(ps)})
            continue
        mo = ctx.model_outcome(ps[0], m)
        if no["status"] == ps[0].status and ctx.outcomes_agree(mo, no):
            ctx.validated += 1
        else:
            ctx.mismatches.append({"kernel": k, "vec": [hex(v) for v in vec], "engine": str(mo)[:300], "native": str({x: no[x] for x in ("status", "ret", "msg", "log")})[:300]})


def check_bm_same(ctx):
    bs, order, destroy, dead, size = bm_pre(ctx)
    p1 = ctx.sym("p1", 64)
    p2 = ctx.sym("p2", 64)
    ctx.assume(p1 != 0, p2 != 0)
    paths = ctx.run("k_bm_same", [bs[0], bs[1], bs[2], order, destroy, p1, p2])

    def owner(p):
        o = BV(0, 8)
        for i in range(3):
            o = z3.If(z3.And(ctx.in_region(p, bs[i], size), z3.Not(dead(i))), BV(i + 1, 8), o)
        return o
    for q in paths:
        if q.status == "ret":
            ctx.require(q, (z3.Extract(0, 0, q.ret) == 1) == (owner(p1) == owner(p2)),
                        "the registry finds sandbox i exactly for addresses inside a live sandbox i")
    ctx.only(paths, "ret")
    ctx.expect(paths, ret=6)
    B = [0x300000000, 0x500000000, 0x900000000]
    validate_bm(ctx, "k_bm_same", [[B[0], B[1], B[2], o, d, B[1] + 5, x] for o in (0, 3, 5) for d in (0, 2, 4) for x in (B[1] + 9, B[2] + 1, 0x1000)], B)


def jobs(tier, seed):
    out = []
    backends = [("B32", 32, 4), ("B64", 32, 8)] + ([("B16", 16, 2)] if tier == "thorough" else [])
    for sbx, log, pb in backends:
        names = [k for k in SINGLE if not (sbx != "B32" and k in ("k_store_struct", "k_load_struct"))]
        for gi, grp in enumerate(C.chunks(names, 6)):
            src = '#include "verif_sandbox.hpp"\nusing S = %s;\n#include "C04_kernels.inc"\n' % sbx
            out.append(Job("C04_%s_%d" % (sbx, gi), src, [dict(name="%s %s" % (sbx, k), fn=check_single, kw=dict(k=k, log=log, pb=pb)) for k in grp]))
        src = '#include "verif_sandbox.hpp"\nusing S = %s;\n#include "C04_kernels.inc"\n' % sbx
        out.append(Job("C04_%s_null" % sbx, src, [dict(name="%s %s" % (sbx, k), fn=check_null_paths, kw=dict(k=k, log=log, pb=pb)) for k in ("k_malloc_rep", "k_inv_nullptr_literal")], native=False))
    src = '#include "C04_bm.inc"\n'
    for k in ("k_bm_store_load", "k_bm_load", "k_bm_store_null_load"):
        out.append(Job("C04_BM_" + k, src, [dict(name="BM " + k, fn=check_bm, kw=dict(k=k))], unwind=200))
    out.append(Job("C04_BM_cross", src, [dict(name="BM k_bm_store_load value in any live sandbox", fn=check_bm, kw=dict(k="k_bm_store_load", cross=True))], unwind=200, native=False))
    out.append(Job("C04_BM_cmp_tv", src, [dict(name="BM comparison with a sandbox-resident pointer on either side", fn=check_bm_cmp_tv)], unwind=200, native=False))
    out.append(Job("C04_BM_two_types", src, [dict(name="BM translation while a sandbox of another plugin type is alive", fn=check_bm_two_types)], unwind=200, native=False))
    out.append(Job("C04_BM_after_dead", src, [dict(name="BM lookup after the previously used sandbox was destroyed", fn=check_bm_after_dead)], unwind=200, native=False))
    out.append(Job("C04_BM_failed_create", src, [dict(name="BM k_bm_failed_create", fn=check_bm_failed)], unwind=200, native=False))
    from specs import C07
    out.append(Job("C04_BM_more", '#include "C07_bm2.inc"\n', [dict(name="BM " + k, fn=C07.check_bm2, kw=dict(k=k)) for k in ("k_bm_store_nested", "k_bm_load_nested", "k_bm_store_fnptr", "k_bm_ctx_fnptrptr")], native=False))
    out.append(Job("C04_BM_same", src, [dict(name="BM k_bm_same", fn=check_bm_same)], unwind=200))
    return out
