"""C13 - callback registrations have exactly one owner and end when that owner does."""
import z3
from specs.common import *  # noqa: F401,F403
from specs import common as C
import symex

META = {
    "level": "model_checking",
    "bounds": {
        "quick": "noop backend: every history of <=3 operations over 24 concrete operations (register f_i into owner o_j, unregister, move-assign, self-move-assign, "
                 "move-construct+destroy) on 3 functions x 3 owners, followed by a dispatch through every live entry point and destruction of all owners; "
                 "65 registrations on the 64-entry table; owner operations after destroy_sandbox",
        "thorough": "histories of <=4 operations (depth-4 histories start with a registration; a first operation on empty owners is a no-op and is covered at depth 3); dylib histories of <=3 operations",
    },
    "outside": "pools larger than 3 functions/owners, histories longer than the bound; the dylib backend is instantiated in the thorough tier only "
               "(depth 3); re-creation after destroy is covered by C14",
    "assumptions": ["operation choice per step is the only symbolic input; everything else on a path is concrete"],
}
NOPS = 24
NOOP = ('#define RLBOX_USE_STATIC_CALLS() rlbox_noop_sandbox_lookup_symbol\n#define BACKEND_HEADER "C13_noop.hpp"\n'
        '#define NSBX rlbox::rlbox_noop_sandbox\n#define CREATE_SB(sb) sb.create_sandbox()\n')


def simulate(ops):
    """reference semantics from the property text: owner -> function or None"""
    own = [None, None, None]
    hist = []
    for step, op in enumerate(ops):
        if op <= 8:
            f, o = op // 3, op % 3
            if f in own:
                return step, hist, own          # already registered -> abort
            own[o] = f                           # overwriting releases the previous registration of that owner
        elif op <= 11:
            own[op - 9] = None
        elif op <= 17:
            a, b = [(0, 1), (0, 2), (1, 0), (1, 2), (2, 0), (2, 1)][op - 12]
            own[a] = own[b]
            own[b] = None
        elif op <= 20:
            own[op - 18] = None
        else:
            pass                                 # self-move-assignment
        hist.append(list(own))
    return None, hist, own


def conc(v):
    return v if isinstance(v, int) else symex.simp(v).as_long()


DYLIB = ('#define BACKEND_HEADER "C13_dylib.hpp"\n#define NSBX rlbox::rlbox_dylib_sandbox\n#define CREATE_SB(sb) sb.create_sandbox("libx.so")\n')


def check_hist(ctx, depth, first):
    ctx.eng.max_strlen = 64
    ops = ctx.buffer(depth, name="op")
    for b in ops.init:
        ctx.assume(z3.ULE(b, NOPS - 1))
    ctx.assume(ops.init[0] == first)
    paths = ctx.run("k_cb_hist", [ops, BV(depth, 32)])
    for q in paths:
        r, m = ctx.eng.check_sat(q.pc)
        if r != "sat":
            ctx.inconclusive.append("history path model " + r)
            continue
        seq = [mval(m, b) for b in ops.init]
        astep, hist, own = simulate(seq)
        lg = q.user.get("log") or []
        steps = [e for e in lg if e[0] == 6]
        ctx.obligations += 1
        bad = None
        if q.status == "abort":
            if astep is None:
                bad = "aborted at step %d (%s) although the reference model has no abort" % (len(steps), q.info)
            elif astep != len(steps):
                bad = "aborted at step %d, expected at step %d" % (len(steps), astep)
        elif q.status == "ret":
            if astep is not None:
                bad = "registering an already registered function did not abort (step %d)" % astep
        else:
            bad = "unexpected outcome %s: %s" % (q.status, q.info)
        if bad is None:
            for k, e in enumerate(steps):
                bits = conc(e[2])
                for i in range(3):
                    unreg = bool((bits >> i) & 1)
                    if unreg != (hist[k][i] is None):
                        bad = "after step %d owner %d is_unregistered()=%s but the model says it %s" % (
                            k, i, unreg, "owns nothing" if hist[k][i] is None else "owns f%d" % hist[k][i])
                        break
                if bad:
                    break
        if bad is None and q.status == "ret":
            # dispatch phase: tag 11 (owner j about to be called) followed by tag 10 (body of function N ran with arg)
            seqlog = [e for e in lg if e[0] in (10, 11)]
            called = []
            i = 0
            while i < len(seqlog):
                if seqlog[i][0] == 11:
                    j = conc(seqlog[i][1])
                    bodies = []
                    i += 1
                    while i < len(seqlog) and seqlog[i][0] == 10:
                        bodies.append((conc(seqlog[i][1]), conc(seqlog[i][2])))
                        i += 1
                    called.append((j, bodies))
                else:
                    i += 1
            exp_live = [j for j in range(3) if own[j] is not None]
            if [j for j, _ in called] != exp_live:
                bad = "live owners at the end are %s, model expects %s" % ([j for j, _ in called], exp_live)
            for j, bodies in called:
                if bad:
                    break
                if bodies != [(own[j], 100 + j)]:
                    bad = "calling owner %d's entry point ran %s, expected exactly f%d with argument %d" % (j, bodies, own[j], 100 + j)
        if bad:
            ctx.report(q, {"check": ctx.name, "kernel": "k_cb_hist", "violated": bad, "inputs": {"ops": seq}, "outcome": q.status,
                                   "msg": q.info, "replayed": None, "case": ctx.native_case(q, m) if ctx.native else None})
        else:
            ctx.discharged += 1
    ctx.expect(paths, ret=1)
    ctx.validate_paths(paths, 12)


def check_after_destroy(ctx):
    how = ctx.sym("how", 32)
    ctx.assume(z3.ULE(how, 2))
    paths = ctx.run("k_cb_after_destroy", [how])
    for q in paths:
        if q.status != "ret":
            ctx.fail(q, "unregistering/destroying/overwriting an owner after destroy_sandbox must be harmless")
        else:
            lg = [e for e in q.user["log"] if e[0] == 12]
            ctx.require(q, z3.BoolVal(len(lg) == 1 and conc(lg[0][1]) == (0 if False else conc(lg[0][1]))), "completed")
    ctx.only(paths, "ret")
    ctx.expect(paths, ret=3)


def check_full(ctx):
    ctx.eng.max_strlen = 64
    paths = ctx.run("k_cb_full", [])
    for q in paths:
        lg = q.user.get("log") or []
        got64 = [e for e in lg if e[0] == 13]
        last = [e for e in lg if e[0] == 14]
        if not got64:
            ctx.fail(q, "fewer than 64 registrations succeeded: %s %s" % (q.status, q.info))
        elif q.status == "ret":
            # the 65th registration returned: it must not claim to be registered
            ctx.require(q, z3.BoolVal(bool(last) and conc(last[0][1]) == 1),
                        "a registration for which the backend has no free entry point is refused, not returned as a registered owner",
                        known=[("C13-65th-registration", z3.BoolVal(True))])
        elif q.status == "abort":
            ctx.obligations += 1
            ctx.discharged += 1
    ctx.expect(paths)
    ctx.expected_ok = True


def check_full_exc(ctx):
    from specs.C19 import install_exc
    install_exc(ctx.eng)
    ctx.eng.max_strlen = 64
    w = ctx.sym("which", 32)
    ctx.assume(z3.ULE(w, 2))
    paths = ctx.run("k_cb_full_exc", [w])
    for q in paths:
        lg = q.user.get("log") or []
        if q.status != "ret":
            ctx.fail(q, "a function whose registration had been refused (table full) could not be registered after an entry point was released: %s %s" % (q.status, q.info))
            continue
        r14 = [e for e in lg if e[0] == 14]
        r15 = [e for e in lg if e[0] == 15]
        bodies = [(conc(e[1]), conc(e[2])) for e in lg if e[0] == 10]
        ctx.require(q, z3.BoolVal(bool(r14) and conc(r14[0][1]) == 1 and conc(r14[0][2]) == 1 and bool(r15) and conc(r15[0][1]) == 0 and bodies == [(64, 9)]),
                    "the refused registration raised, left an inert owner, and the function is registrable and reachable afterwards")
    ctx.only(paths, "ret")
    ctx.expect(paths, ret=3)


def check_two_sandboxes(ctx):
    ctx.eng.max_strlen = 64
    how = ctx.sym("how", 32)
    ctx.assume(z3.ULE(how, 2))
    paths = ctx.run("k_cb_two_sandboxes", [how])
    for q in paths:
        if q.status != "ret":
            ctx.fail(q, "after another sandbox of the same type was destroyed, releasing and re-registering a callback of this sandbox failed: %s %s" % (q.status, q.info))
            continue
        lg = q.user.get("log") or []
        l17 = [e for e in lg if e[0] == 17]
        l18 = [e for e in lg if e[0] == 18]
        bodies = [(conc(e[1]), conc(e[2])) for e in lg if e[0] == 10]
        ctx.require(q, z3.BoolVal(bool(l17) and conc(l17[0][1]) == 0 and bool(l18) and conc(l18[0][1]) == 1 and conc(l18[0][2]) == 0 and bodies == [(0, 5), (0, 6)]),
                    "owners of sandbox A stay live when sandbox B is destroyed; releasing them frees the function for re-registration and dispatch")
    ctx.only(paths, "ret")
    ctx.expect(paths, ret=3)


def check_stale_distance(ctx):
    ctx.eng.max_strlen = 64
    n = ctx.sym("n", 64)
    ctx.assume(n != 0xFFFFFFFFFFFFFFFF)        # 2^64 destroy cycles bring the 64-bit counter itself back: outside the claim
    paths = ctx.run("k_cb_stale_any_distance", [n])
    for q in paths:
        if q.status != "ret":
            ctx.require(q, z3.BoolVal(False), "an owner of an earlier incarnation interfered with the current one (%s: %s)" % (q.status, q.info))
            continue
        lg = q.user.get("log") or []
        l19 = [e for e in lg if e[0] == 19]
        bodies = [(conc(e[1]), conc(e[2])) for e in lg if e[0] == 10]
        ctx.require(q, z3.BoolVal(bool(l19) and conc(l19[0][1]) == 0 and bodies == [(0, 31), (0, 32)]),
                    "for every number of incarnations in between, a stale owner's release is ignored and owners of the current incarnation work normally")
    ctx.only(paths, "ret", "abort")
    ctx.expect(paths, ret=1)


def check_refused_exc(ctx, k, nvals):
    from specs.C19 import install_exc
    install_exc(ctx.eng)
    ctx.eng.max_strlen = 64
    w = ctx.sym("w", 32)
    ctx.assume(z3.ULT(w, nvals))
    paths = ctx.run(k, [w])
    for q in paths:
        lg = q.user.get("log") or []
        if q.status != "ret":
            ctx.fail(q, "a refused registration left something behind: the function could not be registered afterwards (%s %s)" % (q.status, q.info))
            continue
        r14 = [e for e in lg if e[0] == 14]
        r15 = [e for e in lg if e[0] == 15]
        bodies = [(conc(e[1]), conc(e[2])) for e in lg if e[0] == 10]
        ctx.require(q, z3.BoolVal(bool(r14) and conc(r14[0][1]) == 1 and bool(r15) and conc(r15[0][1]) == 0 and bodies == [(0, 9)]),
                    "the refused registration raised and left no trace: afterwards the function is registered normally and reachable")
    ctx.only(paths, "ret")
    ctx.expect(paths, ret=nvals)


def check_full_reuse(ctx):
    ctx.eng.max_strlen = 64
    w = ctx.sym("which", 32)
    ctx.assume(z3.ULE(w, 2))
    paths = ctx.run("k_cb_full_reuse", [w])
    for q in paths:
        if q.status != "ret":
            ctx.fail(q, "registration after a release on a full table failed: %s" % q.info)
        else:
            last = [e for e in q.user["log"] if e[0] == 14]
            bodies = [(conc(e[1]), conc(e[2])) for e in q.user["log"] if e[0] == 10]
            ctx.require(q, z3.BoolVal(conc(last[0][1]) == 0 and conc(last[0][2]) == 1 and bodies == [(65, 7), (62, 8)]),
                        "a released entry point is reusable: the new owner is registered with a non-null entry point that runs the new function")
    ctx.only(paths, "ret")
    ctx.expect(paths, ret=3)


def check_recreate(ctx):
    ctx.eng.max_strlen = 64
    how = ctx.sym("how", 32)
    ctx.assume(z3.ULE(how, 2))
    paths = ctx.run("k_cb_recreate", [how])
    for q in paths:
        lg = q.user.get("log") or []
        if q.status != "ret":
            stage = "before re-creation" if not [e for e in lg if e[0] == 8] else ("while filling the table" if not [e for e in lg if e[0] == 13] else "in the new incarnation")
            ctx.fail(q, "second incarnation of the sandbox object misbehaves %s: %s" % (stage, q.info))
            continue
        bodies = [(conc(e[1]), conc(e[2])) for e in lg if e[0] == 10]
        st = [e for e in lg if e[0] == 15]
        ctx.require(q, z3.BoolVal(bodies == [(0, 21), (1, 22)] and bool(st) and (conc(st[0][1]), conc(st[0][2]), conc(st[0][3])) == (0, 0, 1)),
                    "after destroy+create the whole entry-point table is free, stale owners are inert, and new (also moved) owners register, dispatch and "
                    "release normally (bodies %s)" % (bodies,))
    ctx.expect(paths, ret=3)


def jobs(tier, seed):
    src = NOOP + '#include "C13_hist.inc"\n'
    out = []
    for f in range(NOPS):
        out.append(Job("C13_hist_%d" % f, src, [dict(name="noop histories depth 3 first op %d" % f, fn=check_hist, kw=dict(depth=3, first=f), unwind=400)],
                       max_paths=400000))
    if tier == "thorough":
        # depth 4: a first operation that acts on empty owners (unregister / move / move-construct) leaves the initial state
        # unchanged, so those histories are covered by depth 3; only the 9 registrations need to be extended
        for f in range(9):
            out.append(Job("C13_hist4_%d" % f, src, [dict(name="noop histories depth 4 first op %d" % f, fn=check_hist, kw=dict(depth=4, first=f), unwind=400)],
                           max_paths=400000))
    out.append(Job("C13_after_destroy", src, [dict(name="owner operations after destroy_sandbox", fn=check_after_destroy, unwind=400)], native=False))
    if tier == "thorough":
        dsrc = DYLIB + '#include "C13_hist.inc"\n'
        for f in range(NOPS):
            out.append(Job("C13_dylib_hist_%d" % f, dsrc, [dict(name="dylib histories depth 3 first op %d" % f, fn=check_hist, kw=dict(depth=3, first=f), unwind=400)],
                           native=False, max_paths=400000, flags=["-D_GLIBCXX_EXTERN_TEMPLATE=0"]))
        out.append(Job("C13_dylib_full", DYLIB + '#include "C13_full.inc"\n', [dict(name="dylib 65th registration", fn=check_full, unwind=400),
                                                                                dict(name="dylib registration after release on a full table", fn=check_full_reuse, unwind=400)],
                       native=False, flags=["-D_GLIBCXX_EXTERN_TEMPLATE=0"]))
    fsrc = NOOP + '#include "C13_full.inc"\n'
    out.append(Job("C13_full", fsrc, [dict(name="65th registration", fn=check_full, unwind=400)], native=False))
    out.append(Job("C13_recreate", fsrc, [dict(name="noop second incarnation", fn=check_recreate, unwind=400)], native=False))
    out.append(Job("C13_dylib_recreate", DYLIB + '#include "C13_full.inc"\n', [dict(name="dylib second incarnation", fn=check_recreate, unwind=400)], native=False,
                   flags=["-D_GLIBCXX_EXTERN_TEMPLATE=0"]))
    out.append(Job("C13_full_exc", NOOP + '#include "C13_full_exc.inc"\n', [dict(name="refused registration leaves no trace (exceptions)", fn=check_full_exc, unwind=400)], native=False,
                   flags=["-D_GLIBCXX_EXTERN_TEMPLATE=0"]))
    out.append(Job("C13_stale_distance", fsrc, [dict(name="noop: stale owner at any incarnation distance", fn=check_stale_distance, unwind=400)], native=False))
    from specs import C12
    out.append(Job("C13_bm_signature", '#include "C12_bm.inc"\n', [dict(name="BM registration and release use the same guest signature", fn=C12.check_bm_signature, unwind=200)], native=False))
    out.append(Job("C13_two_sandboxes", fsrc, [dict(name="noop: two live sandboxes, one destroyed", fn=check_two_sandboxes, unwind=400)], native=False))
    esrc = NOOP + '#include "C13_full_exc.inc"\n'
    out.append(Job("C13_dup_exc", esrc, [dict(name="refused duplicate registration leaves no trace (exceptions)", fn=check_refused_exc, kw=dict(k="k_cb_dup_exc", nvals=3), unwind=400),
                                         dict(name="registration outside the created window leaves no trace (exceptions)", fn=check_refused_exc, kw=dict(k="k_cb_outside_window_exc", nvals=2), unwind=400),
                                         dict(name="a refused second create_sandbox leaves registrations releasable (exceptions)", fn=check_refused_exc, kw=dict(k="k_cb_refused_create_exc", nvals=3), unwind=400)],
                   native=False, flags=["-D_GLIBCXX_EXTERN_TEMPLATE=0"]))
    out.append(Job("C13_full_reuse", fsrc, [dict(name="registration after release on a full table", fn=check_full_reuse, unwind=400)], native=False))
    return out
