"""C05 - tainted pointer arithmetic stays inside the sandbox and uses the sandbox stride."""
import z3
from specs.common import *  # noqa: F401,F403
from specs import common as C

META = {
    "level": "model_checking",
    "bounds": {
        "quick": "9 pointee types (incl. a two-dimensional array) x 8 index types x {+,-,[]} plus +=,-=,&p[n] for int/long index and ++/-- (pre/post) on the LP32 backend B32; "
                 "base, p (null or anywhere in the 4 GiB region) and n (full width of its type) symbolic",
        "thorough": "8 pointees x 13 index types x {+,-,+=,-=,[],&[]} and ++/-- on B32 and B16",
    },
    "outside": "pointee types other than the 8 listed; function pointers; bool/char index types",
    "assumptions": ["guest stride table is computed in the spec from LP32 rules (long/pointers 4 bytes), not taken from sizeof in the kernel"],
}

# pointee: tag, C++ pointee type, tainted pointer type, guest size(B32/B16: pointers are 4/2 bytes)
def pointees(ptr_bytes):
    return [("char", "char", 1), ("short", "short", 2), ("int", "int", 4), ("long", "long", 4), ("llong", "long long", 8),
            ("intp", "int*", ptr_bytes), ("vs24", "VS24", 8 + ptr_bytes if ptr_bytes == 4 else 4 + 2 + 2 + 4),
            ("arr4", "int[4]", 16), ("arr23", "long[2][3]", 24), ("cllong", "const long long", 8), ("clong", "const long", 4)]


def ptr_type(pt):
    if pt == "int[4]":
        return "int(*)[4]"
    if pt == "long[2][3]":
        return "long(*)[2][3]"
    return pt + "*"


IDX = {t.tag: t for t in C.STD_INTS if t.tag not in ("char",)}
WRAPPED = {"tint": C.INT, "tsize": C.ULONG, "tvint": C.INT}
OPS2 = ["add", "sub", "addeq", "subeq", "idx", "addridx"]
OPS1 = ["preinc", "postinc", "predec", "postdec"]


def kernel_src(op, ptag, pcxx, itag):
    P = ptr_type(pcxx)
    nm = "k_%s_%s_%s" % (op, ptag, itag or "x")
    head = "S::g_base = base; auto t = mk_tainted<%s, S>(p);" % P
    if op in OPS1:
        body = {"preinc": "auto& r = ++t; env_log(2, raw_bits(r), (uint64_t)(&r == &t), 0);",
                "predec": "auto& r = --t; env_log(2, raw_bits(r), (uint64_t)(&r == &t), 0);",
                "postinc": "auto old = t++; env_log(1, raw_bits(old), 0, 0);",
                "postdec": "auto old = t--; env_log(1, raw_bits(old), 0, 0);"}[op]
        return "K uint64_t %s(uint64_t base, uint64_t p) { %s %s return raw_bits(t); }" % (nm, head, body)
    if itag in WRAPPED:
        it = WRAPPED[itag]
        if itag == "tvint":
            decl = "uint64_t cell"
            prep = "auto cp = mk_tainted<int*, S>(cell); auto& n = *cp;"
        else:
            decl = "%s nn" % it.cxx
            prep = "tainted<%s, S> n = nn;" % ("size_t" if itag == "tsize" else "int")
    else:
        it = IDX[itag]
        decl = "%s n" % it.cxx
        prep = ""
    expr = {"add": "auto r = t + n; return raw_bits(r);", "sub": "auto r = t - n; return raw_bits(r);",
            "addeq": "t += n; return raw_bits(t);", "subeq": "t -= n; return raw_bits(t);",
            "idx": "auto& r = t[n]; return (uint64_t)(uintptr_t)&reinterpret_cast<const volatile char&>(r);",
            "addridx": "auto r = &t[n]; return raw_bits(r);"}[op]
    return "K uint64_t %s(uint64_t base, uint64_t p, %s) { %s %s %s }" % (nm, decl, head, prep, expr)


def check_arith(ctx, op, ptag, gsize, itag, log, wide=False):
    k = "k_%s_%s_%s" % (op, ptag, itag or "x")
    base = ctx.sandbox_base(log)
    size = 1 << log
    p = ctx.sym("p", 64)
    inreg = ctx.in_region(p, base, size)
    nullable = True      # p[n] and &p[n] on a null pointer must abort like every other form
    ctx.assume(z3.Or(p == 0, inreg) if nullable else inreg)
    args = [base, p]
    if op in OPS1:
        N = BV(1, 128)
        minus = op in ("predec", "postdec")
    else:
        it = WRAPPED.get(itag) or IDX[itag]
        if itag == "tvint":
            nb = 8 if wide else 4          # B32W: the guest's int is 64 bits wide, the index is narrowed on the way out
            cell = ctx.sym("cell", 64)
            ctx.assume(z3.UGE(cell, base), z3.ULE(cell - base, BV(size - nb, 64)))
            mem0 = ctx.eng.initial_memory()
            n = z3.Concat(*[z3.Select(mem0, cell + BV(i, 64)) for i in reversed(range(nb))])
            args.append(cell)
        else:
            n = ctx.sym("n", it.bits)
            args.append(n)
        N = ext(n, it.signed)
        minus = op in ("sub", "subeq")
    P = zext(p, 128)
    E = P - N * gsize if minus else P + N * gsize
    B = zext(base, 128)
    inside = z3.And(p != 0, E >= B, E < B + size)
    wrap = z3.Or(E < 0, E >= (1 << 64))
    known = [("C05-wrap64", wrap)]
    paths = ctx.run(k, args)
    for q in paths:
        if q.status == "ret":
            ctx.require(q, z3.And(inside, zext(q.ret, 128) == E),
                        "returns only when the exact address p%sn*s is inside the sandbox, and returns exactly it" % ("-" if minus else "+"), known=known)
            lg = q.user.get("log") or []
            if op in ("postinc", "postdec"):
                ctx.require(q, z3.And(len(lg) == 1, lg[0][1] == p) if lg else z3.BoolVal(False), "post-increment/decrement returns the old pointer")
            if op in ("preinc", "predec"):
                ctx.require(q, z3.And(lg[0][1] == q.ret, lg[0][2] == 1) if lg else z3.BoolVal(False), "pre-increment/decrement returns the updated object itself")
        elif q.status == "abort":
            if wide:
                fits = z3.And(n >= BV(-(1 << 31), 64), n <= BV((1 << 31) - 1, 64))
                ctx.require(q, z3.Or(z3.Not(inside), z3.Not(fits)), "aborts only when p is null, the exact address is outside the sandbox, or the guest's index does not fit the application's int")
            else:
                ctx.require(q, z3.Not(inside), "aborts only when p is null or the exact address is outside the sandbox")
    ctx.only(paths, "ret", "abort")
    ctx.expect(paths, ret=1, abort=1)
    if wide:
        return
    # translator validation vectors
    b0 = 0x300000000 if log == 32 else 0x300000000 + (5 << log)
    vecs = []
    pvals = [0, b0, b0 + gsize, b0 + size - gsize, b0 + size // 2] if nullable else [b0, b0 + gsize, b0 + size - gsize, b0 + size // 2]
    if op in OPS1:
        vecs = [[b0, pv] for pv in pvals]
        ctx.validate(k, vecs, base=None)
    elif itag == "tvint":
        for nv in (0, 1, 0xFFFFFFFF, 0x7FFFFFFF, 0x80000000, 5):
            ctx.validate(k, [[b0, pv, b0 + 0x100] for pv in pvals[:3]], mem={b0 + 0x100 + i: (nv >> (8 * i)) & 0xFF for i in range(4)}, base=b0)
    else:
        it = WRAPPED.get(itag) or IDX[itag]
        nvals = [0, 1, 2, it.max & ((1 << it.bits) - 1), (it.min) & ((1 << it.bits) - 1), (1 << it.bits) - 1, size // gsize, size // gsize - 1]
        nvals = sorted(set(v & ((1 << it.bits) - 1) for v in nvals))
        ctx.validate(k, [[b0, pv, nv] for pv in pvals for nv in nvals], base=None)


EXT_SRC = """
enum EL : long { EL0 = 0 };          // underlying type whose size depends on the ABI (4 bytes in the LP32 guest)
enum EI : int { EI0 = 0 };           // underlying type with the same size on both sides
K uint64_t k_add_enuml(uint64_t base, uint64_t p, long n) { S::g_base = base; auto t = mk_tainted<EL*, S>(p); auto r = t + n; return raw_bits(r); }
K uint64_t k_add_enumi(uint64_t base, uint64_t p, long n) { S::g_base = base; auto t = mk_tainted<EI*, S>(p); auto r = t + n; return raw_bits(r); }
K uint64_t k_sub_enumi(uint64_t base, uint64_t p, unsigned n) { S::g_base = base; auto t = mk_tainted<EI*, S>(p); auto r = t - n; return raw_bits(r); }
// index types wider than a pointer (GNU 128-bit integers here; long long on a 32-bit host)
K uint64_t k_add_int_u128(uint64_t base, uint64_t p, uint64_t hi, uint64_t lo) { S::g_base = base; auto t = mk_tainted<int*, S>(p);
  unsigned __int128 n = ((unsigned __int128)hi << 64) | lo; auto r = t + n; return raw_bits(r); }
K uint64_t k_sub_int_s128(uint64_t base, uint64_t p, uint64_t hi, uint64_t lo) { S::g_base = base; auto t = mk_tainted<int*, S>(p);
  __int128 n = (__int128)(((unsigned __int128)hi << 64) | lo); auto r = t - n; return raw_bits(r); }
K uint64_t k_idx_long_s128(uint64_t base, uint64_t p, uint64_t hi, uint64_t lo) { S::g_base = base; auto t = mk_tainted<long*, S>(p);
  __int128 n = (__int128)(((unsigned __int128)hi << 64) | lo); auto& r = t[n]; return (uint64_t)(uintptr_t)&reinterpret_cast<const volatile char&>(r); }
"""


def check_ext(ctx, k, gsize, minus, ibits, signed, known_id=None, known_stride=None):
    base = ctx.sandbox_base(32)
    size = 1 << 32
    p = ctx.sym("p", 64)
    inreg = ctx.in_region(p, base, size)
    ctx.assume(inreg if "idx" in k else z3.Or(p == 0, inreg))
    if ibits == 128:
        hi, lo = ctx.sym("hi", 64), ctx.sym("lo", 64)
        n = z3.Concat(hi, lo)
        args = [base, p, hi, lo]
        N = z3.SignExt(64, n) if signed else z3.ZeroExt(64, n)
        W = 192
    else:
        n = ctx.sym("n", ibits)
        args = [base, p, n]
        N = ext(n, signed, 192)
        W = 192
    P = z3.ZeroExt(W - 64, p)
    E = P - N * gsize if minus else P + N * gsize
    B = z3.ZeroExt(W - 64, base)
    inside = z3.And(p != 0, E >= B, E < B + size)
    # a recorded finding excuses exactly the behaviour "correct, but with the application's stride": anything else is still reported
    E2 = (P - N * known_stride if minus else P + N * known_stride) if known_id else None
    inside2 = z3.And(p != 0, E2 >= B, E2 < B + size) if known_id else None
    paths = ctx.run(k, args)
    for q in paths:
        if q.status == "ret":
            known = [(known_id, z3.And(inside2, z3.ZeroExt(W - 64, q.ret) == E2))] if known_id else []
            ctx.require(q, z3.And(inside, z3.ZeroExt(W - 64, q.ret) == E), "returns only when the exact address is inside the sandbox, and returns exactly it", known=known)
        elif q.status == "abort":
            known = [(known_id, z3.Not(inside2))] if known_id else []
            ctx.require(q, z3.Not(inside), "aborts only when p is null or the exact address is outside the sandbox", known=known)
    ctx.only(paths, "ret", "abort")
    ctx.expect(paths, ret=1, abort=1)


def check_bm_arith(ctx, k, gsize, ibits, signed):
    from specs.C04 import bm_pre
    bs, order, destroy, dead, size = bm_pre(ctx)
    p = ctx.sym("p", 64)
    owner = [z3.And(ctx.in_region(p, bs[i], size), z3.Not(dead(i))) for i in range(3)]
    ctx.assume(z3.Or(*owner))
    ob = z3.If(owner[0], bs[0], z3.If(owner[1], bs[1], bs[2]))
    n = ctx.sym("n", ibits)
    N = ext(n, signed)
    E = zext(p, 128) + N * gsize
    B = zext(ob, 128)
    inside = z3.And(E >= B, E < B + size)
    paths = ctx.run(k, [bs[0], bs[1], bs[2], order, destroy, p, n])
    for q in paths:
        if q.status == "ret":
            ctx.require(q, z3.And(inside, zext(q.ret, 128) == E), "returns only when the exact address is inside p's sandbox, and returns exactly it")
        elif q.status == "abort":
            ctx.require(q, z3.Not(inside), "aborts only when the exact address is outside p's sandbox, whatever sandboxes were created and destroyed before")
    ctx.only(paths, "ret", "abort")
    ctx.expect(paths, ret=6, abort=6)


def check_bm_after_failed(ctx):
    size = 1 << 32
    bx = ctx.sandbox_base(32, "bx", aligned=False)
    b1 = ctx.sandbox_base(32, "b1", aligned=False)
    p = ctx.sym("p", 64)
    ctx.assume(ctx.in_region(p, b1, size))
    n = ctx.sym("n", 32)
    E = zext(p, 128) - zext(n, 128) * 4
    B = zext(b1, 128)
    inside = z3.And(E >= B, E < B + size)
    paths = ctx.run("k_bm_sub_after_failed", [bx, b1, p, n])
    for q in paths:
        if q.status == "ret":
            ctx.require(q, z3.And(inside, zext(q.ret, 128) == E), "returns only when the exact address is inside the live sandbox (a dead or failed one nearby is no sandbox)")
        elif q.status == "abort":
            ctx.require(q, z3.Not(inside), "aborts only when the exact address is outside the live sandbox")
    ctx.only(paths, "ret", "abort")
    ctx.expect(paths, ret=2, abort=2)


def jobs(tier, seed):
    out = []
    out.append(Job("C05_BM_after_failed", '#include "C05_bm.inc"\n', [dict(name="BM arithmetic after a failed creation, a retry and a destroy", fn=check_bm_after_failed)], unwind=200, native=False))
    out.append(Job("C05_BM_idx", '#include "C05_bm.inc"\n',
                   [dict(name="BM k_bm_idx", fn=check_bm_arith, kw=dict(k="k_bm_idx", gsize=2, ibits=32, signed=False))], unwind=200, native=False))
    if tier == "thorough":
        out.append(Job("C05_BM_add", '#include "C05_bm.inc"\n',
                       [dict(name="BM k_bm_add", fn=check_bm_arith, kw=dict(k="k_bm_add", gsize=4, ibits=64, signed=True))], unwind=200, native=False))
    ext_checks = [("k_add_enuml", dict(gsize=4, minus=False, ibits=64, signed=True, known_id="C05-enum-abi-stride", known_stride=8)),
                  ("k_add_enumi", dict(gsize=4, minus=False, ibits=64, signed=True)),
                  ("k_sub_enumi", dict(gsize=4, minus=True, ibits=32, signed=False)),
                  ("k_add_int_u128", dict(gsize=4, minus=False, ibits=128, signed=False)),
                  ("k_sub_int_s128", dict(gsize=4, minus=True, ibits=128, signed=True)),
                  ("k_idx_long_s128", dict(gsize=4, minus=False, ibits=128, signed=True))]
    # configuration: the embedder asks for exceptions (RLBOX_USE_EXCEPTIONS) but the TU is built with -fno-exceptions:
    # a failed check must still end the operation
    csrc = [C.PRELUDE, '#include "verif_structs.hpp"', "using S = B32;"]
    cchk = []
    for op, ptag, pcxx, gsize, itag in (("add", "int", "int", 4, "long"), ("sub", "vs24", "VS24", 12, "int"), ("idx", "long", "long", 4, "ullong"), ("preinc", "short", "short", 2, None)):
        csrc.append(kernel_src(op, ptag, pcxx, itag))
        cchk.append(dict(name="B32 RLBOX_USE_EXCEPTIONS+-fno-exceptions %s %s idx=%s" % (op, ptag, itag), fn=check_arith,
                         kw=dict(op=op, ptag=ptag, gsize=gsize, itag=itag, log=32)))
    out.append(Job("C05_B32_cfg_noexc", "\n".join(csrc) + "\n", cchk, flags=["-fno-exceptions", "-DRLBOX_USE_EXCEPTIONS"]))
    out.append(Job("C05_B32_ext", C.PRELUDE + "using S = B32;\n" + EXT_SRC,
                   [dict(name="B32 " + k, fn=check_ext, kw=dict(k=k, **kw)) for k, kw in ext_checks], flags=["-fno-exceptions", "-std=gnu++17"], native=False))
    # B32W: an index that lives in sandbox memory as a 64-bit guest int (narrowed to the application's int before use)
    wsrc = [C.PRELUDE, '#include "verif_structs.hpp"', "using S = B32W;"]
    wchk = []
    for op, ptag, pcxx, gsize in (("add", "char", "char", 1), ("sub", "long", "long", 4), ("idx", "char", "char", 1), ("addridx", "long", "long", 4)):
        wsrc.append(kernel_src(op, ptag, pcxx, "tvint"))
        wchk.append(dict(name="B32W %s %s idx=sandbox-resident 64-bit int" % (op, ptag), fn=check_arith, kw=dict(op=op, ptag=ptag, gsize=gsize, itag="tvint", log=32, wide=True)))
    out.append(Job("C05_B32W_tvint", "\n".join(wsrc) + "\n", wchk, flags=["-fno-exceptions"], native=False))
    backends = [("B32", 32, 4)] + ([("B16", 16, 2)] if tier == "thorough" else [])
    for sbx, log, pb in backends:
        for ptag, pcxx, gsize in pointees(pb):
            combos = []
            if tier == "thorough":
                for itag in list(IDX) + list(WRAPPED):
                    for op in OPS2:
                        combos.append((op, itag))
            else:
                for itag in ("schar", "ushort", "int", "uint", "long", "ullong", "tint", "tvint"):
                    for op in ("add", "sub", "idx"):
                        combos.append((op, itag))
                for itag in ("int", "long"):
                    for op in ("addeq", "subeq", "addridx"):
                        combos.append((op, itag))
            if ptag == "vs24":
                # unary & on a non-const tainted_volatile<struct> does not compile on this tree
                # (rlbox_struct_support.hpp casts away const): such programs are rejected, nothing to check
                combos = [c for c in combos if c[0] != "addridx"]
            for op in OPS1:
                combos.append((op, None))
            for gi, grp in enumerate(C.chunks(combos, 2 if tier == "quick" else 4)):
                src = [C.PRELUDE, '#include "verif_structs.hpp"', "using S = %s;" % sbx]
                chks = []
                for op, itag in grp:
                    src.append(kernel_src(op, ptag, pcxx, itag))
                    chks.append(dict(name="%s %s %s idx=%s" % (sbx, op, ptag, itag), fn=check_arith,
                                     kw=dict(op=op, ptag=ptag, gsize=gsize, itag=itag, log=log)))
                out.append(Job("C05_%s_%s_%d" % (sbx, ptag, gi), "\n".join(src) + "\n", chks, flags=["-fno-exceptions"]))
    return out
