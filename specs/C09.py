"""C09 - verified copies are application-memory snapshots: no check/use window."""
import z3
from specs.common import *  # noqa: F401,F403
from specs import common as C
import symex

META = {
    "level": "model_checking",
    "bounds": {"quick": "10 copy_and_verify variants on B32 in adversarial-memory mode: every read of sandbox memory returns a fresh unconstrained value "
                        "(= a sandbox thread may rewrite any byte between any two of rlbox's reads); first strlen <= 6, count <= 4",
               "thorough": "first strlen <= 10, count <= 6"},
    "outside": "strings/ranges beyond the stated lengths; counterexamples of this property are schedules chosen by the solver and are not replayed natively "
               "(no interleave hooks are added to /repo); the same kernels are validated sequentially against the native build",
    "assumptions": ["adversarial-memory mode over-approximates every interleaving of a sandbox-side writer with rlbox's own reads"],
}
SIZE = 1 << 32
LD = ("ld", "ld-bulk", "ld-strlen", "ld-atomic")


def adversarial(ctx):
    ctx.adversarial = True
    eng = ctx.eng

    def hook(st, a, n):
        v = eng.fresh("adv", 8 * n)
        st.user.setdefault("adv", []).append((a, n, v))
        return v
    eng.read_hook = hook
    old_log = eng.stubs["env_log"]

    def env_log(e, st, args, ins):
        r = old_log(e, st, args, ins)
        t = symex.simp(args[0])
        st.events.append(("log", t.as_long() if symex.is_conc(t) else -1))
        return r
    eng.stubs["env_log"] = env_log
    old_strlen = eng.stubs["strlen"]

    def strlen(e, st, args, ins):
        outs = old_strlen(e, st, args, ins)
        for s2, rv in outs:
            if rv is not None:
                s2.user.setdefault("strlen", []).append(rv)
        return outs
    eng.stubs["strlen"] = strlen


def is_app_addr(eng, v):
    v = symex.simp(v) if not isinstance(v, int) else v
    if isinstance(v, int):
        return eng.classify(v) != "other"
    return symex.is_conc(v) and eng.classify(v.as_long()) != "other"


def no_read_after_verifier(ctx, q):
    seen = False
    for e in q.events:
        if e[0] == "log" and e[1] == 5:
            seen = True
        elif seen and e[0] in LD:
            return False
    return True


def check_variant(ctx, k, kind, bound):
    adversarial(ctx)
    base = ctx.sandbox_base(32)
    p = ctx.sym("p", 64)
    if "_vol" in k or k in ("k_cav_volptr_long", "k_cav_volptr_struct"):
        ctx.assume(z3.UGE(p, base), z3.ULE(p - base, BV(SIZE - 4, 64)))
    elif kind == "arr":
        # these kernels dereference the pointer themselves before calling rlbox: the application has null-checked it
        ctx.assume(ctx.in_region(p, base, SIZE))
    else:
        ctx.assume(z3.Or(p == 0, ctx.in_region(p, base, SIZE)))
    args = [base, p]
    ctx.eng.max_strlen = bound
    ctx.eng.strlen_assume_bound = True
    ctx.eng.user_max_alloc = 4096
    if kind in ("range", "deny", "bufaddr"):
        n = ctx.sym("n", 64)
        ctx.assume(z3.ULE(n, bound))
        args.append(n)
    paths = ctx.run(k, args)
    nver = 0
    for q in paths:
        nd = [e for e in q.events if e[0] == "null-deref"]
        if nd:
            ctx.fail(q, "access through a null pointer at address 0x%x (%s)" % (nd[0][2], nd[0][1]))
        # a null tainted pointer is a value the sandbox can always produce: no variant may dereference it
        acc = [e[1] for e in q.events if e[0] in LD + ("st", "st-bulk") and not isinstance(e[1], int) and not symex.is_conc(symex.simp(e[1]))]
        if acc:
            ctx.require(q, z3.And(*[z3.UGE(a, BV(0x10000, 64)) for a in acc]), "no access through a null (or near-null) pointer whatever the sandbox supplies")
        # every byte that is copied or decoded (everything except the strlen scan, which rlbox runs before its range check) is
        # read from inside the sandbox region: a copy from an address that was not the one range-checked is not
        rd = [(e[1], e[2]) for e in q.events if e[0] in ("ld", "ld-bulk", "ld-atomic") and not isinstance(e[1], int) and not symex.is_conc(symex.simp(e[1]))]
        if rd and kind in ("range", "string_u", "string_s", "deny", "bufaddr"):     # the variants that range-check an extent (a plain *p of an object
            # straddling the end of the region is the recorded finding C03-object-straddles-end, not a C09 matter)
            ctx.require(q, z3.And(*[z3.And(z3.UGE(a_, base), z3.ULE(zext(a_ - base, 128) + (zext(n_, 128) if not isinstance(n_, int) else n_), BV(SIZE, 128))) for a_, n_ in rd]),
                        "every sandbox byte that is copied or decoded is read from inside the sandbox region, whatever the sandbox writes between rlbox's fetches")
        if q.status != "ret":
            continue
        lg = [e for e in (q.user.get("log") or []) if e[0] == 5]
        if not lg:
            continue
        nver += 1
        # (2) nothing is fetched from the sandbox once the verifier has been entered
        if not no_read_after_verifier(ctx, q):
            ctx.fail(q, "sandbox memory is read again after the verifier was entered (check/use window)")
        else:
            ctx.obligations += 1
            ctx.discharged += 1
        # (1) the object handed to the verifier lives in application memory
        obj = lg[0][1]
        if kind in ("ptr", "struct", "arr", "range", "string_u", "string_s", "deny"):
            isnull = (isinstance(obj, int) and obj == 0)
            if not isnull and not is_app_addr(ctx.eng, obj):
                ctx.fail(q, "the verifier received an object that is not in application memory: %s" % obj)
            else:
                ctx.obligations += 1
                ctx.discharged += 1
        if [e for e in q.events if e[0] == "app-oob"]:
            ctx.fail(q, "application buffer overrun: %r" % ([e for e in q.events if e[0] == "app-oob"][0],))
        if k == "k_cavr_vol":
            # every element fetched for the copy must lie wholly inside the sandbox, whatever the pointer slot holds at each fetch
            adv = q.user.get("adv") or []
            reads = [a for (a, n_, v_) in adv if n_ == 4 and not z3.eq(symex.simp(a), symex.simp(p))]
            if reads:
                ctx.require(q, z3.And(*[z3.And(z3.UGE(a, base), z3.ULE(zext(a - base, 128) + 4, BV(SIZE, 128))) for a in reads]),
                            "each element read by a range copy lies wholly inside the sandbox even if the sandbox rewrites the pointer slot between rlbox's fetches")
        if kind == "range" and k != "k_cavr_vol" and not (isinstance(obj, int) and obj == 0):
            # element i of the verifier's copy is exactly what was fetched from element i of the source
            esz = 1 if k == "k_cavr_char" else 4
            a0 = symex.simp(obj).as_long() if not isinstance(obj, int) else obj
            adv = q.user.get("adv") or []
            conds = []
            for i in range(bound):
                el = z3.Concat(*[ctx.eng.cbyte(q, a0 + i * esz + j) for j in reversed(range(esz))]) if esz > 1 else ctx.eng.cbyte(q, a0 + i)
                src = p + BV(i * esz, 64)
                conds.append(z3.Implies(z3.UGT(n, BV(i, 64)), z3.Or(*[z3.And(a == src, val == el) for (a, n_, val) in adv if n_ == esz])))
            ctx.require(q, z3.And(*conds), "every element of the verifier's copy is the value fetched from the same element of the sandbox range "
                                           "(binary content, including bytes after an embedded zero)")
        # content handed to the verifier must come from sandbox reads, never from uninitialised application bytes
        for ent in lg:
            for x in ent[1:]:
                if not isinstance(x, int) and "uninit_" in str(x):
                    ctx.fail(q, "the verifier's object contains bytes that were never fetched from the sandbox (uninitialised application memory)")
                    break
        if kind == "bufaddr":
            a = lg[0][2] if not isinstance(lg[0][2], int) else BV(lg[0][2], 64)
            ctx.require(q, z3.Or(a == 0, z3.And(z3.UGE(a, base), z3.ULE(zext(a - base, 128) + zext(n, 128), BV(SIZE, 128)), n != 0)),
                        "the address handed to the verifier is the one that was null- and range-checked (a buffer of n bytes inside the sandbox), "
                        "whatever the sandbox writes to the pointer slot meanwhile")
        # (3) strings
        if kind in ("string_u", "string_s") and not (isinstance(obj, int) and obj == 0):
            sl = q.user.get("strlen") or []
            if not sl:
                # no length was measured: only the null-pointer path may get here, with an empty string
                ctx.require(q, (lg[0][2] == 0) if kind == "string_s" else z3.BoolVal(False),
                            "a string delivered without measuring the source is the empty string")
                continue
            first = symex.simp(sl[0]).as_long()
            if kind == "string_u":
                a = symex.simp(obj).as_long() if not isinstance(obj, int) else obj
                blk = [e for e in q.events if e[0] == "alloc" and e[1] == a]
                size = blk[-1][2] if blk else None
                if size is None or (not isinstance(size, int) and not symex.is_conc(symex.simp(size))):
                    ctx.fail(q, "string buffer size not concrete")
                    continue
                size = size if isinstance(size, int) else symex.simp(size).as_long()
                ctx.require(q, z3.And(z3.BoolVal(size == first + 1), ctx.eng.cbyte(q, a + size - 1) == 0),
                            "the string buffer has exactly checked-length+1 bytes and ends in NUL whatever the sandbox writes meanwhile")
            else:
                sz = lg[0][2] if not isinstance(lg[0][2], int) else BV(lg[0][2], 64)
                nul = lg[0][3] if not isinstance(lg[0][3], int) else BV(lg[0][3], 64)
                ctx.require(q, z3.And(nul == 0, z3.Or(sz == first, sz == 0)),
                            "std::string is never longer than the range-checked length (that length, or empty) and is NUL-terminated")
    ctx.only(paths, "ret", "abort", "alloc-fail")
    ctx.expect(paths, ret=1)
    if nver == 0:
        ctx.inconclusive.append("%s: verifier never reached" % k)


def check_narrow(ctx, k, abits):
    """B32W: the guest integer is wider than the application's; the value delivered to the verifier must be one the
    sandbox actually stored and that passed the range check, even if the cell changes between rlbox's reads"""
    adversarial(ctx)
    base = ctx.sandbox_base(32)
    p = ctx.sym("p", 64)
    ctx.assume(z3.UGE(p, base), z3.ULE(p - base, BV(SIZE - 8, 64)))
    paths = ctx.run(k, [base, p])
    nver = 0
    for q in paths:
        if q.status != "ret":
            continue
        lg = [e for e in (q.user.get("log") or []) if e[0] == 5]
        if not lg:
            continue
        nver += 1
        v = lg[0][2] if not isinstance(lg[0][2], int) else BV(lg[0][2], 64)
        v = z3.Extract(abits - 1, 0, v)
        adv = q.user.get("adv") or []
        ctx.require(q, z3.Or(*[val == z3.SignExt(val.size() - abits, v) for (a, n_, val) in adv]) if adv else z3.BoolVal(False),
                    "the narrowed value handed to the verifier equals a value fetched from the cell (so it fits the application type); "
                    "a value assembled from different fetches for the range check and for the copy does not")
        if not no_read_after_verifier(ctx, q):
            ctx.fail(q, "sandbox memory is read again after the verifier was entered (check/use window)")
    if nver == 0:
        ctx.inconclusive.append("%s: no path reached the verifier" % k)
    ctx.only(paths, "ret", "abort")
    ctx.expect(paths, ret=1, abort=1)


VARIANTS = [("k_cav_vol_int", "val"), ("k_cav_vol_long", "val"), ("k_cav_ptr_int", "ptr"), ("k_cav_volptr_long", "ptr"), ("k_cav_struct", "struct"),
            ("k_cav_arr", "arr"), ("k_cav_arr_cref", "arr"), ("k_cavr", "range"), ("k_cavs_unique", "string_u"), ("k_cavs_string", "string_s"), ("k_deny_copy", "deny"),
            ("k_cavs_vol_unique", "string_u"), ("k_cavs_cunique", "string_u"), ("k_cavs_vol_cunique", "string_u"), ("k_cavs_vol_string", "string_s"), ("k_cav_arr2d", "arr"), ("k_cavba_vol", "bufaddr"), ("k_cavr_vol", "range"), ("k_cavr_char", "range"), ("k_cav_volptr_struct", "struct")]


def check_seq(ctx, k, kind):
    """sequential (non-adversarial) translator validation of the same kernels"""
    base = ctx.sandbox_base(32)
    b0 = 0x300000000
    mem = {b0 + 0x40 + i: v for i, v in enumerate(b"hello\0zz" + bytes([0x11, 0x22, 0x33, 0x44, 0, 0, 0, 0, 9, 8, 7, 6, 5, 4, 3, 2]))}
    if "_vol" in k or k in ("k_cav_volptr_long", "k_cav_volptr_struct"):
        mem = {b0 + 0x40: 0x80, b0 + 0x41: 0, b0 + 0x42: 0, b0 + 0x43: 0}
        mem.update({b0 + 0x80 + i: v for i, v in enumerate(b"abc\0defg")})
    ctx.eng.max_strlen = 8
    vec = [[b0, b0 + 0x40] + ([3] if kind in ("range", "deny", "bufaddr") else [])]
    ctx.job.compare_logs = False
    ctx.validate(k, vec, mem=mem, base=b0)
    if ctx.validated < 1:
        ctx.inconclusive.append("%s: sequential validation did not agree" % k)
    ctx.expected_ok = True
    ctx.obligations += 1
    ctx.discharged += 1


def jobs(tier, seed):
    return jobs_core(tier, seed) + jobs_bm(tier, seed)


def jobs_bm(tier, seed):
    # the snapshot a struct verifier receives carries pointer fields translated relative to the sandbox (BM: the example-based
    # translation must be given an address inside the sandbox, not the application-side snapshot)
    from specs import C08
    return [Job("C09_BM_cav_struct", '#include "C08_bm.inc"\n', [dict(name="BM copy_and_verify of a struct with pointer fields", fn=C08.check_bm_vsh, kw=dict(k="k_bm_cav_vsh"))],
                native=False, flags=["-D_GLIBCXX_EXTERN_TEMPLATE=0"])]


def jobs_core(tier, seed):
    flags = ["-D_GLIBCXX_EXTERN_TEMPLATE=0"]
    src = '#include "verif_sandbox.hpp"\nusing S = B32;\n#include "C09_kernels.inc"\n'
    sb = 6 if tier == "quick" else 10
    rb = 4 if tier == "quick" else 6
    out = []
    for i, (k, kind) in enumerate(VARIANTS):
        b = sb if kind.startswith("string") else rb
        out.append(Job("C09_" + k, src, [dict(name="adversarial " + k, fn=check_variant, kw=dict(k=k, kind=kind, bound=b), unwind=40),
                                         dict(name="sequential " + k, fn=check_seq, kw=dict(k=k, kind=kind), unwind=40)], flags=flags))
    # "never longer than the length that was range-checked" for lengths beyond the string bound of this check: the range
    # check itself is decided for every 64-bit length by C10's kernels (same oracles)
    from specs import C10
    for j in C10.jobs("quick", seed):
        keep = [c for c in j.checks if c["name"] in ("copy_and_verify_buffer_address char", "copy_and_verify_range char", "copy_and_verify_string")]
        if keep:
            out.append(Job(j.name.replace("C10_", "C09_range_"), j.source, keep, flags=j.flags, unwind=j.unwind, compare_logs=j.compare_logs, native=j.want_native))
    wsrc = '#include "verif_sandbox.hpp"\nusing S = B32W;\n#include "C09_kernels.inc"\n'
    out.append(Job("C09_B32W_narrow", wsrc, [dict(name="adversarial narrowing k_cav_vol_int (64-bit guest int)", fn=check_narrow, kw=dict(k="k_cav_vol_int", abits=32), unwind=40)],
                   flags=flags, native=False))
    return out
