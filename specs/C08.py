"""C08 - struct marshalling follows the sandbox ABI layout and round-trips every field."""
import random
import z3
from specs.common import *  # noqa: F401,F403
from specs import common as C
import symex

META = {
    "level": "model_checking",
    "bounds": {
        "quick": "4 reflected structs (integer widths/signedness, bool, enum, float, double, object and function pointers, char[3], int[3], int*[2], nested struct; "
                 "two field orders) on B32: guest size and every field offset vs. an independent LP32 layout; *p = tainted<S> and tainted<S> = *p with every "
                 "field value / every guest byte symbolic; by-value argument and by-value result of an invocation",
        "thorough": "60 more structs with seeded random field lists, some with a nested struct field (VERIF_SEED)",
    },
    "outside": "nesting depth > 2; const-qualified fields (tainted<const S> specialisations are instantiated but not exercised); unions, bit-fields",
    "assumptions": ["independent layout oracle: LP32 sizes/alignments (long, pointers 4 bytes; long long, double 8-byte aligned) computed in Python from the field list",
                    "guest bool bytes are 0/1"],
}
SIZE = 1 << 32


# ------------------------------------------------------------------ field model (independent of rlbox)
class F:
    def __init__(self, kind, cxx, asz, aal, gsz, gal, signed=False, sub=None, n=0):
        self.kind, self.cxx, self.asz, self.aal, self.gsz, self.gal, self.signed, self.sub, self.n = kind, cxx, asz, aal, gsz, gal, signed, sub, n

    def dims(self):
        return ([self.n] + self.sub.dims()) if self.kind == "arr" else []

    def leaf(self):
        return self.sub.leaf() if self.kind == "arr" else self

    def decl(self, name):
        d = "".join("[%d]" % x for x in self.dims())
        lf = self.leaf()
        if lf.kind == "fnptr":
            return "int (*%s%s)(int)" % (name, d)
        return "%s %s%s" % (lf.cxx, name, d)

    def refl(self):
        d = "".join("[%d]" % x for x in self.dims())
        lf = self.leaf()
        if lf.kind == "fnptr":
            return "int (*%s)(int)" % d if d else "int (*)(int)"
        return lf.cxx + d


def INTF(cxx, bits, signed, gbits=None):
    g = (gbits or bits) // 8
    return F("int", cxx, bits // 8, bits // 8, g, g, signed)


def make_types(pg):
    return {
        "char": INTF("char", 8, True), "schar": INTF("signed char", 8, True), "uchar": INTF("unsigned char", 8, False), "short": INTF("short", 16, True),
        "ushort": INTF("unsigned short", 16, False), "int": INTF("int", 32, True), "uint": INTF("unsigned int", 32, False), "long": INTF("long", 64, True, 32),
        "ulong": INTF("unsigned long", 64, False, 32), "llong": INTF("long long", 64, True), "ullong": INTF("unsigned long long", 64, False),
        "bool": F("bool", "bool", 1, 1, 1, 1), "enum": F("raw", "VEnum8", 4, 4, 4, 4), "float": F("raw", "float", 4, 4, 4, 4), "double": F("raw", "double", 8, 8, 8, 8),
        "intp": F("ptr", "int*", 8, 8, pg, pg), "voidp": F("ptr", "void*", 8, 8, pg, pg), "fnptr": F("fnptr", "fn", 8, 8, pg, pg),
    }


T = make_types(4)


def ARR(sub, n):
    return F("arr", None, sub.asz * n, sub.aal, sub.gsz * n, sub.gal, sub=sub, n=n)


def layout(fields, guest):
    off, al, out = 0, 1, []
    for nm, f in fields:
        a = f.gal if guest else f.aal
        s = f.gsz if guest else f.asz
        off = (off + a - 1) // a * a
        out.append(off)
        off += s
        al = max(al, a)
    return out, (off + al - 1) // al * al, al


class ST:
    def __init__(self, name, fields):
        self.name, self.fields = name, fields
        self.aoff, self.asz, self.aal = layout(fields, False)
        self.goff, self.gsz, self.gal = layout(fields, True)

    def as_field(self):
        f = F("struct", self.name, self.asz, self.aal, self.gsz, self.gal)
        f.st = self
        return f


def gen_struct_src(structs):
    s = ["enum VEnum8 : unsigned { VE_A, VE_B = 77 };"]
    for st in structs:
        s.append("struct %s { %s };" % (st.name, " ".join(f.decl(nm) + ";" for nm, f in st.fields)))
    for st in structs:
        lines = " g() \\\n  ".join("f(%s, %s, FIELD_NORMAL, ##__VA_ARGS__)" % (f.refl(), nm) for nm, f in st.fields)
        s.append("#define sandbox_fields_reflection_slib_class_%s(f, g, ...) \\\n  %s g()" % (st.name, lines))
    s.append("#define sandbox_fields_reflection_slib_allClasses(f, ...) \\\n  " + " \\\n  ".join("f(%s, slib, ##__VA_ARGS__)" % st.name for st in structs))
    s.append("rlbox_load_structs_from_library(slib);")
    return "\n".join(s) + "\n"


def gen_kernels(st):
    n = st.name
    k = []
    # application-side layout of the tainted struct (a run-time kernel rather than a static_assert, so that a wrong layout is
    # reported as a violation instead of a TU that does not compile)
    k.append("K uint64_t k_appsize_%s() { env_log(60, sizeof(%s), alignof(tainted<%s, S>), alignof(%s)); return sizeof(tainted<%s, S>); }" % (n, n, n, n, n))
    for (nm, f), ao in zip(st.fields, st.aoff):
        k.append("K uint64_t k_appoff_%s_%s() { tainted<%s, S> v; env_log(61, offsetof(%s, %s), sizeof(v.%s), sizeof(%s::%s)); "
                 "return (uint64_t)((const char*)&v.%s - (const char*)&v); }" % (n, nm, n, n, nm, nm, n, nm, nm))
    k.append("K uint64_t k_sizeof_%s() { return sizeof(tainted_volatile<%s, S>); }" % (n, n))
    for nm, f in st.fields:
        k.append("K uint64_t k_off_%s_%s(uint64_t base, uint64_t p) { S::g_base = base; auto t = mk_tainted<%s*, S>(p); "
                 "return (uint64_t)(uintptr_t)&reinterpret_cast<const volatile char&>(t->%s) - p; }" % (n, nm, n, nm))
    k.append("K void k_store_%s(uint64_t base, uint64_t p, const void* in) { S::g_base = base; auto t = mk_tainted<%s*, S>(p); tainted<%s, S> v; "
             "std::memcpy((void*)&v, in, sizeof(%s)); *t = v; }" % (n, n, n, n))
    k.append("K void k_storeidx_%s(uint64_t base, uint64_t p, const void* in) { S::g_base = base; auto t = mk_tainted<%s*, S>(p); tainted<%s, S> v; "
             "std::memcpy((void*)&v, in, sizeof(%s)); t[1] = v; }" % (n, n, n, n))
    k.append("K void k_load_%s(uint64_t base, uint64_t p, void* out) { S::g_base = base; auto t = mk_tainted<%s*, S>(p); tainted<%s, S> v = *t; "
             "std::memcpy(out, (const void*)&v, sizeof(%s)); }" % (n, n, n, n))
    k.append("K void k_loadu_%s(uint64_t base, uint64_t p, void* out) { S::g_base = base; auto t = mk_tainted<%s*, S>(p); %s v = t->UNSAFE_unverified(); "
             "std::memcpy(out, (const void*)&v, sizeof(%s)); }" % (n, n, n, n))
    # by value through an invocation: the guest copies the struct it received into sandbox memory at base+0x1000, and returns the one found at base+0x2000
    k.append("static void g_take_%s(rlbox::Sbx_slib_%s<S> s) { std::memcpy((void*)(S::g_base + 0x1000), &s, sizeof(s)); env_log(70, sizeof(s), 0, 0); }" % (n, n))
    k.append("static rlbox::Sbx_slib_%s<S> g_give_%s() { rlbox::Sbx_slib_%s<S> s; std::memcpy(&s, (const void*)(S::g_base + 0x2000), sizeof(s)); return s; }" % (n, n, n))
    k.append("K void k_byval_arg_%s(uint64_t base, const void* in) { rlbox_sandbox<S> sb; sb.create_sandbox(base); tainted<%s, S> v; "
             "std::memcpy((void*)&v, in, sizeof(%s)); sb.template INTERNAL_invoke_with_func_ptr<void(%s)>(\"g_take\", (void*)&g_take_%s, v); }" % (n, n, n, n, n))
    k.append("K void k_byval_ret_%s(uint64_t base, void* out) { rlbox_sandbox<S> sb; sb.create_sandbox(base); "
             "auto v = sb.template INTERNAL_invoke_with_func_ptr<%s()>(\"g_give\", (void*)&g_give_%s); static_assert(std::is_same_v<decltype(v), tainted<%s, S>>); "
             "std::memcpy(out, (const void*)&v, sizeof(%s)); }" % (n, n, n, n, n))
    return "\n".join(k) + "\n"


# ------------------------------------------------------------------ value relations
def cat(bs):
    return z3.Concat(*reversed(bs)) if len(bs) > 1 else bs[0]


def rel_to_guest(f, app, guest, base):
    """returns (constraints that app bytes -> guest bytes image, fits condition)"""
    if f.kind == "int":
        a = cat(app)
        g = cat(guest)
        if f.gsz < f.asz:
            A = ext(a, f.signed)
            lim = C.IT("g", "", f.gsz * 8, f.signed)
            return [ext(g, f.signed) == A], [z3.And(A >= lim.min, A <= lim.max)]
        return [g == a], []
    if f.kind in ("raw",):
        return [cat(guest) == cat(app)], []
    if f.kind == "bool":
        return [guest[0] == app[0]], []
    if f.kind in ("ptr", "fnptr"):
        a = cat(app)
        gb = f.gsz * 8
        return [cat(guest) == z3.If(a == 0, BV(0, gb), z3.Extract(gb - 1, 0, a - base))], []
    if f.kind == "arr":
        cs, fs = [], []
        for i in range(f.n):
            c, ft = rel_to_guest(f.sub, app[i * f.sub.asz:(i + 1) * f.sub.asz], guest[i * f.sub.gsz:(i + 1) * f.sub.gsz], base)
            cs += c
            fs += ft
        return cs, fs
    if f.kind == "struct":
        cs, fs = [], []
        for (nm, sf), ao, go in zip(f.st.fields, f.st.aoff, f.st.goff):
            c, ft = rel_to_guest(sf, app[ao:ao + sf.asz], guest[go:go + sf.gsz], base)
            cs += c
            fs += ft
        return cs, fs
    raise Inconclusive("field kind " + f.kind)


def rel_to_app(f, guest, app, base):
    if f.kind == "int":
        g, a = cat(guest), cat(app)
        return [a == (sext(g, f.asz * 8) if f.signed else zext(g, f.asz * 8))]
    if f.kind == "raw":
        return [cat(app) == cat(guest)]
    if f.kind == "bool":
        return [app[0] == guest[0]]
    if f.kind in ("ptr", "fnptr"):
        g = cat(guest)
        return [cat(app) == z3.If(g == 0, BV(0, 64), base + zext(g, 64))]   # (B64: representations are assumed < SIZE by the load checks)
    if f.kind == "arr":
        cs = []
        for i in range(f.n):
            cs += rel_to_app(f.sub, guest[i * f.sub.gsz:(i + 1) * f.sub.gsz], app[i * f.sub.asz:(i + 1) * f.sub.asz], base)
        return cs
    if f.kind == "struct":
        cs = []
        for (nm, sf), ao, go in zip(f.st.fields, f.st.aoff, f.st.goff):
            cs += rel_to_app(sf, guest[go:go + sf.gsz], app[ao:ao + sf.asz], base)
        return cs
    raise Inconclusive("field kind " + f.kind)


def bool_bytes(f, off, guest):
    """guest offsets of bool bytes (precondition: 0/1)"""
    if f.kind == "bool":
        return [off]
    if f.kind == "arr":
        return sum([bool_bytes(f.sub, off + i * f.sub.gsz, guest) for i in range(f.n)], [])
    if f.kind == "struct":
        return sum([bool_bytes(sf, off + go, guest) for (nm, sf), go in zip(f.st.fields, f.st.goff)], [])
    return []


def footprints(f, off):
    """list of (guest offset, size) of leaf fields"""
    if f.kind == "arr":
        return sum([footprints(f.sub, off + i * f.sub.gsz) for i in range(f.n)], [])
    if f.kind == "struct":
        return sum([footprints(sf, off + go) for (nm, sf), go in zip(f.st.fields, f.st.goff)], [])
    return [(off, f.gsz)]


# ------------------------------------------------------------------ checks
def check_layout(ctx, st):
    for q in ctx.run("k_appsize_" + st.name, []):
        lg = [e for e in q.user["log"] if e[0] == 60][0]
        ctx.require(q, z3.And(q.ret == st.asz, z3.BoolVal(lg[1] == st.asz and lg[2] == lg[3])),
                    "the tainted struct in application memory has the size and alignment of the plain struct (%d)" % st.asz)
    for (nm, f), ao in zip(st.fields, st.aoff):
        for q in ctx.run("k_appoff_%s_%s" % (st.name, nm), []):
            lg = [e for e in q.user["log"] if e[0] == 61][0]
            ctx.require(q, z3.And(q.ret == ao, z3.BoolVal(lg[1] == ao and lg[2] == lg[3])),
                        "field %s of the tainted struct is at the plain struct's offset %d with the plain field's size" % (nm, ao))
    paths = ctx.run("k_sizeof_" + st.name, [])
    for q in paths:
        ctx.require(q, q.ret == st.gsz, "sizeof the sandbox image equals the LP32 size %d" % st.gsz)
    base = ctx.sandbox_base(32)
    p = ctx.sym("p", 64)
    ctx.assume(ctx.in_region(p, base, SIZE))
    n = 0
    for (nm, f), go in zip(st.fields, st.goff):
        ps = ctx.run("k_off_%s_%s" % (st.name, nm), [base, p])
        for q in ps:
            if q.status == "ret":
                ctx.require(q, q.ret == go, "field %s is at LP32 offset %d of the sandbox image" % (nm, go))
                n += 1
        ctx.only(ps, "ret")
    ctx.expect(paths, ret=1)
    if n != len(st.fields):
        ctx.inconclusive.append("not every field offset kernel returned")


def whole(st):
    return st.as_field()


def check_store(ctx, st, byval=False, index=0):
    base = ctx.sandbox_base(32)
    inb = ctx.buffer(st.asz, name="in")
    f = whole(st)
    # pointer fields hold tainted pointers: null or inside
    for (off, sz, kind) in leaf_app(f, 0):
        if kind in ("ptr", "fnptr"):
            v = cat(inb.init[off:off + 8])
            ctx.assume(z3.Or(v == 0, z3.And(z3.UGT(v, base), z3.ULT(v - base, BV(SIZE, 64)))))
    if byval:
        paths = ctx.run("k_byval_arg_" + st.name, [base, inb])
        p = base + 0x1000
    elif index:
        # element `index` of an array of structs in sandbox memory, reached through operator[]: guest stride
        p0 = ctx.sym("p", 64)
        ctx.assume(z3.UGE(p0, base), z3.ULE(p0 - base, BV(SIZE - (index + 1) * st.gsz, 64)))
        paths = ctx.run("k_storeidx_" + st.name, [base, p0, inb])
        p = p0 + BV(index * st.gsz, 64)
    else:
        p = ctx.sym("p", 64)
        ctx.assume(z3.UGE(p, base), z3.ULE(p - base, BV(SIZE - st.gsz, 64)))
        paths = ctx.run("k_store_" + st.name, [base, p, inb])
    mem0 = ctx.eng.initial_memory()
    x = ctx.sym("x_any", 64)
    fps = footprints(f, 0)
    for q in paths:
        guest = [z3.Select(q.mem, p + BV(i, 64)) for i in range(st.gsz)]
        cs, fits = rel_to_guest(f, inb.init, guest, base)
        allfit = z3.And(*fits) if fits else z3.BoolVal(True)
        if q.status == "ret":
            ctx.require(q, z3.And(allfit, *cs), "every field arrives in the sandbox image at its LP32 offset with its converted value")
            if not byval:
                infield = z3.Or(*[z3.And(z3.UGE(x - p, BV(o, 64)), z3.ULT(x - p, BV(o + s, 64))) for o, s in fps])
                ctx.require(q, z3.Implies(z3.Not(infield), z3.Select(q.mem, x) == z3.Select(mem0, x)),
                            "no guest byte outside the fields' footprints (padding, neighbours) is written")
            else:
                lg = [e for e in (q.user.get("log") or []) if e[0] == 70]
                ctx.require(q, z3.BoolVal(len(lg) == 1 and lg[0][1] == st.gsz), "the guest function is called exactly once with a struct of the LP32 size")
        elif q.status == "abort":
            ctx.require(q, z3.Not(allfit), "aborts only when some field is not representable in the sandbox ABI")
    ctx.only(paths, "ret", "abort")
    ctx.expect(paths, ret=1)
    if not index:
        ctx.validate_paths(paths, 4)


def leaf_app(f, off):
    if f.kind == "arr":
        return sum([leaf_app(f.sub, off + i * f.sub.asz) for i in range(f.n)], [])
    if f.kind == "struct":
        return sum([leaf_app(sf, off + ao) for (nm, sf), ao in zip(f.st.fields, f.st.aoff)], [])
    return [(off, f.asz, f.kind)]


def leaf_guest(f, off):
    if f.kind == "arr":
        return sum([leaf_guest(f.sub, off + i * f.sub.gsz) for i in range(f.n)], [])
    if f.kind == "struct":
        return sum([leaf_guest(sf, off + go) for (nm, sf), go in zip(f.st.fields, f.st.goff)], [])
    return [(off, f.gsz, f.kind)]


def check_load(ctx, st, form):
    base = ctx.sandbox_base(32)
    out = ctx.buffer(st.asz, name="out")
    f = whole(st)
    mem0 = ctx.eng.initial_memory()
    if form == "byval_ret":
        p = base + 0x2000
        args = [base, out]
    else:
        p = ctx.sym("p", 64)
        ctx.assume(z3.UGE(p, base), z3.ULE(p - base, BV(SIZE - st.gsz, 64)))
        args = [base, p, out]
    guest = [z3.Select(mem0, p + BV(i, 64)) for i in range(st.gsz)]
    for o in bool_bytes(f, 0, guest):
        ctx.assume(z3.ULE(guest[o], 1))
    for (o, sz, kind) in leaf_guest(f, 0):
        if kind in ("ptr", "fnptr") and sz == 8:
            ctx.assume(z3.ULT(cat(guest[o:o + 8]), BV(SIZE, 64)))
    paths = ctx.run("k_%s_%s" % (form, st.name), args)
    for q in paths:
        if q.status == "ret":
            app = [ctx.eng.cbyte(q, out.addr + i) for i in range(st.asz)]
            cs = rel_to_app(f, guest, app, base)
            ctx.require(q, z3.And(*cs), "every field of the application copy is the conversion of the sandbox image's field at its LP32 offset")
            if form != "byval_ret":
                rd = [e for e in q.events if e[0] in ("ld", "ld-bulk") and not isinstance(e[1], int)]
                ctx.require(q, z3.And(*[z3.And(z3.UGE(e[1], p), z3.ULE(e[1] - p + BV(e[2], 64), BV(st.gsz, 64))) for e in rd]) if rd else z3.BoolVal(False),
                            "only bytes of the sandbox image are read")
            if [e for e in q.events if e[0] == "app-oob"]:
                ctx.fail(q, "application object overrun")
    ctx.only(paths, "ret")
    ctx.expect(paths, ret=1)
    ctx.validate_paths(paths, 2)


def check_roundtrip(ctx, st):
    """from(to(s)) == s: store then load through the same kernels, composed by the solver"""
    base = ctx.sandbox_base(32)
    inb = ctx.buffer(st.asz, name="in")
    f = whole(st)
    for (off, sz, kind) in leaf_app(f, 0):
        if kind in ("ptr", "fnptr"):
            v = cat(inb.init[off:off + 8])
            ctx.assume(z3.Or(v == 0, z3.And(z3.UGT(v, base), z3.ULT(v - base, BV(SIZE, 64)))))
        if kind == "bool":
            ctx.assume(z3.ULE(inb.init[off], 1))
    guest = [ctx.sym("g%d" % i, 8) for i in range(st.gsz)]
    back = [ctx.sym("b%d" % i, 8) for i in range(st.asz)]
    cs, fits = rel_to_guest(f, inb.init, guest, base)
    cb = rel_to_app(f, guest, back, base)
    # leaf bytes (not padding) must be identical after the round trip
    eq = [back[o + i] == inb.init[o + i] for (o, s, k) in leaf_app(f, 0) for i in range(s)]
    ctx.obligations += 1
    r, m = ctx.eng.check_sat(ctx.pre + cs + fits + cb + [z3.Not(z3.And(*eq))])
    if r == "unsat":
        ctx.discharged += 1
    else:
        ctx.inconclusive.append("round-trip composition: " + r)
    ctx.expected_ok = True


# ------------------------------------------------------------------ struct families
def base_structs(T=T):
    inner = ST("SInner", [("m_x", T["short"]), ("m_y", T["long"])])
    s1 = ST("S1", [("m_a", T["char"]), ("m_b", T["long"]), ("m_c", T["short"]), ("m_p", T["intp"]), ("m_d", T["ullong"]), ("m_arr", ARR(T["char"], 3)), ("m_e", T["uint"])])
    s2 = ST("S2", [("m_f", T["bool"]), ("m_g", T["double"]), ("m_h", T["ulong"]), ("m_fn", T["fnptr"]), ("m_i", T["float"]), ("m_en", T["enum"]), ("m_ia", ARR(T["int"], 3))])
    s3 = ST("S3", [("m_l1", T["long"]), ("m_in", inner.as_field()), ("m_pa", ARR(T["intp"], 2)), ("m_sc", T["schar"]), ("m_ll", T["llong"])])
    s4 = ST("S4", list(reversed(s1.fields)))
    s5 = ST("S5", [("m_grid", ARR(ARR(T["char"], 3), 2)), ("m_l2", ARR(ARR(T["long"], 2), 2)), ("m_us", ARR(ARR(T["ushort"], 3), 2)), ("m_z", T["int"]),
                   ("m_pp", ARR(ARR(T["intp"], 2), 2))])
    # same total size in both ABIs although a member narrows (the 4 bytes saved by the guest long are eaten by padding):
    # a "same size means same layout" shortcut would copy it bitwise; also nested by value
    s6 = ST("S6", [("m_id", T["long"]), ("m_score", T["double"])])
    s7 = ST("S7", [("m_k", T["short"]), ("m_rec", s6.as_field()), ("m_t", T["ulong"])])
    return [inner, s1, s2, s3, s4, s5, s6, s7]


def random_structs(seed, count):
    rnd = random.Random(seed)
    pool = ["char", "schar", "uchar", "short", "ushort", "int", "uint", "long", "ulong", "llong", "ullong", "bool", "enum", "float", "double", "intp", "voidp", "fnptr"]
    out = []
    for i in range(count):
        k = rnd.randint(3, 8)
        fields = []
        for j in range(k):
            t = T[rnd.choice(pool)]
            if rnd.random() < 0.2 and t.kind in ("int", "ptr"):
                t = ARR(t, rnd.randint(2, 3))
            fields.append(("m_f%d" % j, t))
        if i % 4 == 3 and out:
            # nest the previously generated struct of this group (declared before its user)
            fields.insert(rnd.randint(0, len(fields)), ("m_nested", out[-1].as_field()))
        out.append(ST("R%d_%d" % (seed % 1000, i), fields))
    return out


FN_TAG, FN_XOR = 0x7F0000000000, 0xA5000000


def check_bm_vsh(ctx, k):
    """guest layout of VSH on BM (LP32): a@0 (4), h@4 (4, data pointer), f@8 (4, function representation), p@12 (4)"""
    size = 1 << 32
    b0 = ctx.sandbox_base(32, "b0", aligned=False)
    p = ctx.sym("p", 64)
    ctx.assume(z3.UGE(p, b0), z3.ULE(p - b0, BV(size - 16, 64)))
    mem0 = ctx.eng.initial_memory()
    cell = lambda mem, off: z3.Concat(*[z3.Select(mem, p + BV(off + i, 64)) for i in reversed(range(4))])
    data = lambda r: z3.If(r == 0, BV(0, 64), b0 + zext(r, 64))
    fn = lambda r: z3.If(r == 0, BV(0, 64), BV(FN_TAG, 64) | zext(r ^ BV(FN_XOR, 32), 64))
    if k in ("k_bm_load_vsh", "k_bm_cav_vsh"):
        paths = ctx.run(k, [b0, p])
        for q in paths:
            if q.status == "ret":
                l1 = [e for e in q.user["log"] if e[0] == 1][0]
                l2 = [e for e in q.user["log"] if e[0] == 2][0]
                ctx.require(q, z3.And(l1[1] == sext(cell(mem0, 0), 64), l1[2] == data(cell(mem0, 4)), l1[3] == fn(cell(mem0, 8)), l2[1] == data(cell(mem0, 12))),
                            "every field is copied out with its own translation: data pointers (incl. a pointer to a function pointer) relative to the region, "
                            "the function pointer through the function representation")
        ctx.only(paths, "ret")
        ctx.expect(paths, ret=1)
    elif k == "k_bm_byval_vsh":
        a = ctx.sym("a", 32)
        h = ctx.sym("h", 64)
        f = ctx.sym("f", 64)
        qq = ctx.sym("q", 64)
        ctx.assume(z3.Or(h == 0, ctx.in_region(h, b0, size)), z3.Or(qq == 0, ctx.in_region(qq, b0, size)))
        fr = ctx.sym("frep", 32)
        ctx.assume(f == fn(fr))
        paths = ctx.run(k, [b0, a, h, f, qq])
        rep = lambda v: z3.If(v == 0, BV(0, 64), zext(z3.Extract(31, 0, v - b0), 64))
        bvx = lambda v: v if not isinstance(v, int) else BV(v, 64)
        for q in paths:
            if q.status == "ret":
                l0 = [e for e in q.user["log"] if e[0] == 70]
                l1 = [e for e in q.user["log"] if e[0] == 71]
                ctx.require(q, z3.And(z3.BoolVal(len(l0) == 1 and len(l1) == 1), bvx(l0[0][1]) == zext(a, 64), bvx(l0[0][2]) == rep(h), bvx(l0[0][3]) == zext(fr, 64),
                                      bvx(l1[0][1]) == rep(qq)) if l0 and l1 else z3.BoolVal(False),
                            "passed by value, the guest receives every field in its guest encoding: data pointers as offsets, the function pointer as the function representation")
        ctx.only(paths, "ret")
        ctx.expect(paths, ret=1)
    else:
        a = ctx.sym("a", 32)
        h = ctx.sym("h", 64)
        f = ctx.sym("f", 64)
        qq = ctx.sym("q", 64)
        ctx.assume(z3.Or(h == 0, ctx.in_region(h, b0, size)), z3.Or(qq == 0, ctx.in_region(qq, b0, size)))
        fr = ctx.sym("frep", 32)
        ctx.assume(f == fn(fr))
        paths = ctx.run(k, [b0, p, a, h, f, qq])
        rep = lambda v: z3.If(v == 0, BV(0, 32), z3.Extract(31, 0, v - b0))
        for q in paths:
            if q.status == "ret":
                ctx.require(q, z3.And(cell(q.mem, 0) == a, cell(q.mem, 4) == rep(h), cell(q.mem, 8) == fr, cell(q.mem, 12) == rep(qq)),
                            "every field is written with its own translation")
        ctx.only(paths, "ret")
        ctx.expect(paths, ret=1)


def jobs(tier, seed):
    groups = [("B32", base_structs())]
    t64 = make_types(8)
    b64 = base_structs(t64)
    groups.append(("B64", [b64[0], b64[3], b64[5]]))          # nested + pointer arrays + 2-D arrays on a host-width, non-identity pointer representation
    if tier == "thorough":
        rs = random_structs(seed, 60)
        groups += [("B32", rs[i:i + 4]) for i in range(0, len(rs), 4)]
    out = []
    for gi, (sbx, structs) in enumerate(groups):
        head = ('#include "verif_sandbox.hpp"\n#include "rbtree_model.cpp"\n#include <cstddef>\nusing S = %s;\n' % sbx) + gen_struct_src(structs) + "using namespace rlbox;\n"
        for st in structs:
            if st.name == "SInner":
                continue
            src = head + gen_kernels(st)
            chks = [dict(name="%s %s layout" % (sbx, st.name), fn=check_layout, kw=dict(st=st)),
                    dict(name="%s %s store" % (sbx, st.name), fn=check_store, kw=dict(st=st)),
                    dict(name="%s %s load" % (sbx, st.name), fn=check_load, kw=dict(st=st, form="load")),
                    dict(name="%s %s load (UNSAFE_unverified)" % (sbx, st.name), fn=check_load, kw=dict(st=st, form="loadu")),
                    dict(name="%s %s store into element [1] of an array" % (sbx, st.name), fn=check_store, kw=dict(st=st, index=1)),
                    dict(name="%s %s by-value argument" % (sbx, st.name), fn=check_store, kw=dict(st=st, byval=True)),
                    dict(name="%s %s by-value result" % (sbx, st.name), fn=check_load, kw=dict(st=st, form="byval_ret")),
                    dict(name="%s %s round trip" % (sbx, st.name), fn=check_roundtrip, kw=dict(st=st))]
            out.append(Job("C08_%s_%s" % (sbx, st.name), src, chks, compare_logs=True))
    out.append(Job("C08_BM_vsh_other_destroyed", '#define C08_EARLIER_DESTROYED\n#include "C08_bm.inc"\n',
                   [dict(name="BM struct with Fn*, Fn and int* fields after an earlier sandbox was destroyed: " + k, fn=check_bm_vsh, kw=dict(k=k)) for k in ("k_bm_load_vsh", "k_bm_store_vsh")], native=False))
    out.append(Job("C08_BM_vsh", '#include "C08_bm.inc"\n', [dict(name="BM struct with Fn*, Fn and int* fields: " + k, fn=check_bm_vsh, kw=dict(k=k)) for k in ("k_bm_load_vsh", "k_bm_store_vsh", "k_bm_byval_vsh", "k_bm_cav_vsh")], native=False))
    from specs import C07
    out.append(Job("C08_BM_nested", '#include "C07_bm2.inc"\n', [dict(name="BM nested struct " + k, fn=C07.check_bm2, kw=dict(k=k)) for k in ("k_bm_store_nested", "k_bm_load_nested")], native=False))
    return out
