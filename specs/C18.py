"""C18 - distinct sandboxes can be used from distinct threads without interference (by decomposition)."""
import bisect
import z3
from specs.common import *  # noqa: F401,F403
from specs import common as C
from specs import C04, C12
import symex

META = {
    "level": "other",
    "explanation": "Schedules are not enumerated (the engine executes one thread; another thread's translation is placed at every lock "
                   "acquisition of a create/destroy through the verif_at_lock interleaving hook). The solver discharges, on all paths of kernels with symbolic "
                   "inputs, the two facts from which freedom from interference follows for any number of threads if the lock primitives are correct: "
                   "(1) lock discipline - every read of rlbox's process-wide mutable state (sandbox_list and the buffer it owns) happens while "
                   "sandbox_list_lock is held shared or unique, every write while it is held unique, and no other non-thread-local rlbox global is "
                   "written; the per-thread records of the noop/dylib backends are thread_local in the IR in both TLS configurations; "
                   "(2) non-interference per critical section - with three sandboxes live in any creation order and any subset destroyed, lookups and "
                   "translations for sandbox i give the results they give alone.",
    "bounds": {"quick": "kernels: 3 sandboxes x 6 creation orders x 7 destroy choices with store/load/lookup (multi-instance backend); noop nested "
                        "invoke/callback trees in both TLS configurations", "thorough": "same"},
    "outside": "weak-memory effects, the lock implementation itself, RLBOX_USE_CUSTOM_SHARED_LOCK substitutes, schedules as such",
    "assumptions": ["lock primitives are correct", "instance-private state is reached only through the instance (premise of the property)"],
}


def install_race_hook(ctx):
    eng = ctx.eng
    names = sorted((a, nm) for nm, a in eng.gaddr.items())
    keys = [a for a, _ in names]
    listg = [nm for nm in eng.gaddr if "sandbox_listE" in nm and "lock" not in nm]
    lockg = [nm for nm in eng.gaddr if "sandbox_list_lock" in nm]
    if not listg or not lockg:
        raise Inconclusive("sandbox_list / sandbox_list_lock not found in the IR")
    la, ls = eng.gaddr[listg[0]], eng.gsize[listg[0]]
    lock_addr = eng.gaddr[lockg[0]]

    def gname(av):
        i = bisect.bisect_right(keys, av) - 1
        if i < 0:
            return None
        a, nm = names[i]
        return nm if av < a + eng.gsize[nm] else None

    def hook(st, kind, a, n, region):
        if not st.user.get("race_on") or region == "sym":
            return
        av = a.as_long()
        held = (st.user.get("held") or {}).get(lock_addr)
        write = kind.startswith("st")
        target = None
        if region == "global":
            nm = gname(av)
            if nm is None:
                return
            if la <= av < la + ls:
                target = "sandbox_list"
            elif write and "rlbox" in nm and nm not in lockg and not eng.m.globals[nm].tls and not nm.startswith("_ZN5rlbox8rlbox_bm") and not nm.startswith("_ZN5rlbox10rlbox_vsbx") and "_ZGV" not in nm:
                st.user.setdefault("race", []).append("write to process-wide rlbox global %s" % nm)
                return
        elif region == "heap":
            begin = st.cmem.get(la)
            b0 = eng.load_conc(st, la, 8)
            if symex.is_conc(b0):
                bp = b0.as_long()
                for (b, sz, k, live) in st.allocs:
                    if k == "heap" and b <= bp < b + max(sz, 1) and b <= av < b + sz:
                        target = "sandbox_list buffer"
                        break
        if target is None:
            return
        if write and held != "w":
            st.user.setdefault("race", []).append("%s written while sandbox_list_lock is %s" % (target, {"r": "only held shared", None: "not held"}[held]))
        elif not write and held is None:
            st.user.setdefault("race", []).append("%s read while sandbox_list_lock is not held" % target)
    eng.access_hook = hook
    ctx._lock_addr = lock_addr
    old_log = eng.stubs["env_log"]

    def env_log(e, st, args, ins):
        r = old_log(e, st, args, ins)
        t = symex.simp(args[0])
        st.events.append(("log", t.as_long() if symex.is_conc(t) else -1))
        return r
    eng.stubs["env_log"] = env_log


def arm(ctx):
    """lock discipline is asserted for the kernel run only (static initialisation is single-threaded)"""
    st = ctx.init_state()
    ctx.base_state.user["race_on"] = True


def report(ctx, paths):
    for q in paths:
        ctx.obligations += 1
        races = q.user.get("race") or []
        if races:
            r, m = ctx.eng.check_sat(q.pc)
            ctx.violations.append({"check": ctx.name, "kernel": q.kernel, "violated": "data race on shared state: " + races[0],
                                   "inputs": {k: hex(v) for k, v in ctx._inputs(m).items()} if m else {}, "outcome": q.status, "replayed": None})
        else:
            ctx.discharged += 1


def publication_order(ctx, paths, ncreate):
    """a sandbox must be unpublished from the registry before its backend is torn down (and published only after the
    backend is up): otherwise another thread's lookup can resolve addresses to a sandbox whose memory is gone"""
    for q in paths:
        sections = 0
        destroys = 0
        bad = None
        for e in q.events:
            if e[0] == "lock" and e[1].endswith("unlock"):
                a = e[2]
                if symex.is_conc(a) and a.as_long() == ctx._lock_addr:
                    sections += 1
            elif e[0] == "log" and e[1] == 0x202:       # backend destroy (BM_TAG_DESTROY)
                destroys += 1
                if sections < ncreate + destroys:
                    bad = "backend destroy #%d ran while the sandbox was still published in sandbox_list" % destroys
                    break
        ctx.obligations += 1
        if bad:
            r, m = ctx.eng.check_sat(q.pc)
            ctx.report(q, {"check": ctx.name, "kernel": q.kernel, "violated": bad, "inputs": {k: hex(v) for k, v in ctx._inputs(m).items()} if m else {},
                                   "outcome": q.status, "replayed": None})
        else:
            ctx.discharged += 1


def check_bm_discipline(ctx, k):
    install_race_hook(ctx)
    arm(ctx)
    C04.check_bm(ctx, k)               # also proves per-sandbox results with other sandboxes live (non-interference)
    # C04.check_bm ran the kernel through ctx.run: collect the race reports of those paths
    report(ctx, ctx._c18_paths)
    publication_order(ctx, ctx._c18_paths, 3)


def check_nested_discipline(ctx):
    install_race_hook(ctx)
    arm(ctx)
    C12.check_nested(ctx)
    report(ctx, ctx._c18_paths)


def check_failed_create_discipline(ctx):
    """a creation attempt that fails must not publish the object: other sandboxes' lookups never consult it"""
    install_race_hook(ctx)
    arm(ctx)
    C04.check_bm_failed(ctx)
    report(ctx, ctx._c18_paths)


def check_dlopen_local(ctx):
    """each dylib sandbox must load its library into a private symbol scope (RTLD_LOCAL): with RTLD_GLOBAL the second
    instance's library binds its globals to the first one's and the two sandboxes share state"""
    RTLD_GLOBAL = 0x100
    ctx.eng.max_strlen = 64
    paths = ctx.run("k_nested", [BV(0, 32), BV(1, 32)])
    n = 0
    for q in paths:
        for e in q.events:
            if e[0] == "dlopen":
                n += 1
                ctx.obligations += 1
                if isinstance(e[2], int) and (e[2] & RTLD_GLOBAL) == 0:
                    ctx.discharged += 1
                else:
                    ctx.violations.append({"check": ctx.name, "kernel": "k_nested", "violated": "dlopen flags %r: the sandbox library is not loaded with RTLD_LOCAL" % (e[2],),
                                           "inputs": {}, "outcome": q.status, "replayed": None})
    if n == 0:
        ctx.inconclusive.append("no dlopen call observed")
    ctx.expected_ok = True


def check_tls(ctx, names):
    found = 0
    for nm, g in ctx.eng.m.globals.items():
        if any(x in nm for x in names):
            found += 1
            ctx.obligations += 1
            if g.tls:
                ctx.discharged += 1
            else:
                ctx.violations.append({"check": ctx.name, "kernel": "(IR global)", "violated": "per-thread record %s is not thread_local" % nm, "inputs": {},
                                       "outcome": "n/a", "replayed": None})
    if not found:
        ctx.inconclusive.append("no thread_data global found (%s)" % names)
    ctx.expected_ok = True


class RecCtx:
    pass


def wrap_run(ctx):
    orig = ctx.run
    ctx._c18_paths = []

    def run(kernel, args, extra_pre=()):
        ps = orig(kernel, args, extra_pre)
        ctx._c18_paths += ps
        return ps
    ctx.run = run


def w(fn):
    def f(ctx, **kw):
        wrap_run(ctx)
        return fn(ctx, **kw)
    return f


def check_other_thread(ctx):
    size = 1 << 32
    bx = ctx.sandbox_base(32, "bx", aligned=False)
    by = ctx.sandbox_base(32, "by", aligned=False)
    ctx.assume(z3.Or(z3.UGE(bx, by + BV(size, 64)), z3.UGE(by, bx + BV(size, 64))))
    celly = ctx.sym("celly", 64)
    v = ctx.sym("v", 64)
    op = ctx.sym("op", 32)
    yf = ctx.sym("y_first", 32)
    when = ctx.sym("when", 32)
    ctx.assume(z3.UGE(celly, by), z3.ULE(celly - by, BV(size - 4, 64)), z3.Or(v == 0, z3.And(z3.UGT(v, by), z3.ULT(v - by, BV(size, 64)))))
    ctx.assume(z3.ULE(op, 3), z3.ULE(yf, 1), z3.ULE(when, 5))
    paths = ctx.run("k_bm_other_thread", [bx, by, celly, v, op, yf, when])
    ran = 0
    for q in paths:
        lg = q.user.get("log") or []
        l4 = [e for e in lg if e[0] == 4]
        if q.status != "ret":
            ctx.fail(q, "thread B's translation in its own live sandbox, run at synchronisation point %s of thread A's operation, ended %s (%s)"
                        % ([e[1] for e in l4], q.status, q.info))
            continue
        if l4:
            ran += 1
            l1 = [e for e in lg if e[0] == 1]
            l3 = [e for e in lg if e[0] == 3]
            as_bv = lambda t: BV(t, 64) if isinstance(t, int) else t
            ctx.require(q, z3.And(as_bv(l1[0][1]) == C04.rep_of(v, by, 32), as_bv(l3[0][1]) == v) if l1 and l3 else z3.BoolVal(False),
                        "at every synchronisation point of another thread's create/destroy, a thread's pointer is translated relative to its own sandbox")
    if ran < 4:
        ctx.inconclusive.append("thread B ran on %d paths only" % ran)
    ctx.expect(paths, ret=4)


def jobs(tier, seed):
    out = []
    out.append(Job("C18_BM_other_thread", '#include "C18_interleave.inc"\n', [dict(name="another thread translates at each synchronisation point of create/destroy", fn=check_other_thread, unwind=200)],
                   native=False))
    src = '#include "C04_bm.inc"\n'
    for k in ("k_bm_store_load", "k_bm_load"):
        out.append(Job("C18_BM_" + k, src, [dict(name="lock discipline + non-interference " + k, fn=w(check_bm_discipline), kw=dict(k=k), unwind=200)], native=False))
    # configuration: RLBOX_ENABLE_DEBUG_ASSERTIONS - code that exists only in debug builds obeys the same lock discipline
    out.append(Job("C18_BM_debug_asserts", src, [dict(name="lock discipline + non-interference k_bm_store_load [debug assertions]", fn=w(check_bm_discipline), kw=dict(k="k_bm_store_load"), unwind=200)],
                   native=False, flags=["-DRLBOX_ENABLE_DEBUG_ASSERTIONS"]))
    out.append(Job("C18_BM_after_dead", src, [dict(name="lock discipline + non-interference after another thread's sandbox was destroyed",
                                                   fn=w(lambda ctx: (install_race_hook(ctx), arm(ctx), C04.check_bm_after_dead(ctx), report(ctx, ctx._c18_paths))), unwind=200)], native=False))
    out.append(Job("C18_BM_failed_create", src, [dict(name="a failed creation is never published", fn=w(check_failed_create_discipline), unwind=200)], native=False))
    fl = ["-D_GLIBCXX_EXTERN_TEMPLATE=0"]
    out.append(Job("C18_dylib_scope", C12.DYLIB + '#include "C12_nested.inc"\n', [dict(name="dylib libraries are loaded with a private symbol scope", fn=check_dlopen_local, unwind=400)],
                   native=False, flags=fl))
    for nm, pre, post, tn in (("noop", C12.NOOP, "", ["thread_data"]), ("noop_etls", C12.NOOP_ETLS, "RLBOX_NOOP_SANDBOX_STATIC_VARIABLES();\n", ["thread_info"]),
                              ("dylib", C12.DYLIB, "", ["thread_data"]), ("dylib_etls", C12.DYLIB_ETLS, "RLBOX_DYLIB_SANDBOX_STATIC_VARIABLES();\n", ["thread_info"])):
        out.append(Job("C18_" + nm, pre + '#include "C12_nested.inc"\n' + post,
                       [dict(name=nm + " lock discipline on nested trees", fn=w(check_nested_discipline), unwind=400),
                        dict(name=nm + " per-thread record is thread_local", fn=check_tls, kw=dict(names=tn))], native=False, flags=fl))
    return out
