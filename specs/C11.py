"""C11 - sandbox function invocation delivers arguments and results faithfully."""
import z3
from specs.common import *  # noqa: F401,F403
from specs import common as C
import symex

META = {
    "level": "model_checking",
    "bounds": {
        "quick": "foreign-ABI backend BM in by-name lookup mode (real per-instance std::map<std::string,void*> cache): 5 signatures with 0..6 parameters over "
                 "{char, short, unsigned, long, unsigned long, long long, int*} x 3 wrapper forms (plain, tainted, opaque/nullptr), all argument and result "
                 "values symbolic; two live instances bound to different libraries exporting the same name, in both lookup orders; function address before and "
                 "after an invocation; noop backend in static-call mode",
        "thorough": "same plus a 12-parameter signature",
    },
    "outside": "more than 12 parameters; struct-by-value parameters/results (C08); callback parameters (C12); float/double parameters",
    "assumptions": ["guest functions are stubs with the guest-ABI signature that log what they receive and return a symbolic value"],
}
SIZE = 1 << 32


class PT:
    def __init__(self, tag, app, guest, abits, gbits, signed, ptr=False):
        self.tag, self.app, self.guest, self.abits, self.gbits, self.signed, self.ptr = tag, app, guest, abits, gbits, signed, ptr


P = {t.tag: t for t in [PT("char", "char", "char", 8, 8, True), PT("short", "short", "int16_t", 16, 16, True), PT("uint", "unsigned", "uint32_t", 32, 32, False),
                        PT("long", "long", "int32_t", 64, 32, True), PT("ulong", "unsigned long", "uint32_t", 64, 32, False),
                        PT("llong", "long long", "int64_t", 64, 64, True), PT("intp", "int*", "uint32_t", 64, 32, False, True),
                        PT("int", "int", "int32_t", 32, 32, True)]}
SIGS12 = {"s12": ("long", ["long", "uint", "llong", "intp", "char", "long", "short", "ulong", "int", "intp", "llong", "char"])}
SIGS = {"s0": ("int", []), "s1": ("long", ["long"]), "s2": ("intp", ["intp", "ulong"]), "s3": ("ulong", ["short", "ulong", "char"]),
        "s6": ("llong", ["long", "uint", "llong", "intp", "char", "long"])}
FORMS = ["plain", "tainted", "opaque"]


def gen_sig(name, inst):
    ret, ps = SIGS[name]
    r = P[ret]
    gparams = ", ".join("%s a%d" % (P[p].guest, i) for i, p in enumerate(ps))
    body = []
    for i in range(0, len(ps), 2):
        a = "(uint64_t)(int64_t)a%d" % i if P[ps[i]].signed else "(uint64_t)a%d" % i
        b = ("(uint64_t)(int64_t)a%d" % (i + 1) if P[ps[i + 1]].signed else "(uint64_t)a%d" % (i + 1)) if i + 1 < len(ps) else "0"
        body.append("env_log(%d, %d, %s, %s);" % (30 + i // 2, inst, a, b))
    if not ps:
        body.append("env_log(30, %d, 0, 0);" % inst)
    return "static %s g%d_%s(%s) { %s return (%s)env_u64(40); }" % (r.guest, inst, name, gparams, " ".join(body), r.guest)


def gen_kernel(name, form):
    ret, ps = SIGS[name]
    r = P[ret]
    decl = ", ".join(["uint64_t b0", "uint64_t b1", "uint32_t inst"] + ["%s v%d" % ("uint64_t" if P[p].ptr else P[p].app, i) for i, p in enumerate(ps)])
    prep, args = [], []
    for i, p in enumerate(ps):
        t = P[p]
        if t.ptr:
            prep.append("auto t%d = mk_tainted<%s, BM>(v%d);" % (i, t.app, i))
            if form == "opaque":
                prep.append("auto o%d = t%d.to_opaque();" % (i, i))
                args.append("o%d" % i)
            else:
                args.append("t%d" % i)
        elif form == "plain":
            args.append("v%d" % i)
        elif form == "tainted":
            prep.append("tainted<%s, BM> t%d = v%d;" % (t.app, i, i))
            args.append("t%d" % i)
        else:
            prep.append("tainted<%s, BM> t%d = v%d; auto o%d = t%d.to_opaque();" % (t.app, i, i, i, i))
            args.append("o%d" % i)
    call = "gf_%s%s" % (name, "".join(", " + a for a in args))
    conv = "raw_bits(r)" if r.ptr else "(uint64_t)r.UNSAFE_unverified()"
    return ("K uint64_t k_%s_%s(%s) { RL s[2]; setup(s, b0, b1); %s auto run = [&](RL& sb) { auto r = sb.invoke_sandbox_function(%s); "
            "static_assert(std::is_same_v<decltype(r), tainted<%s, BM>>); return %s; }; return (inst & 1) ? run(s[1]) : run(s[0]); }"
            % (name, form, decl, " ".join(prep), call, r.app, conv))


def gen_source():
    s = ['#include "verif_bm.hpp"', '#include "rbtree_model.cpp"', "using namespace rlbox;", "using RL = rlbox_sandbox<BM>;"]
    for name, (ret, ps) in SIGS.items():
        s.append("%s gf_%s(%s);" % (P[ret].app, name, ", ".join(P[p].app for p in ps)))   # declared only: by-name mode uses decltype + the name
        s.append(gen_sig(name, 0))
        s.append(gen_sig(name, 1))
    s.append("static void setup(RL* s, uint64_t b0, uint64_t b1) { s[0].create_sandbox(b0, 0u); s[1].create_sandbox(b1, 1u);")
    for name in SIGS:
        s.append('  s[0].get_sandbox_impl()->add_symbol("gf_%s", (void*)&g0_%s, 0x%x); s[1].get_sandbox_impl()->add_symbol("gf_%s", (void*)&g1_%s, 0x%x);'
                 % (name, name, 0x100 + 8 * list(SIGS).index(name), name, name, 0x200 + 8 * list(SIGS).index(name)))
    s.append("}")
    for name in SIGS:
        for f in FORMS:
            s.append(gen_kernel(name, f))
    s.append('''
// a sandbox function's address passed back as a function-pointer argument (tainted or opaque form): the guest must
// see the backend's function-pointer representation (table handle), not a data-pointer translation
long gf_fp(long (*)(long), int);
static int32_t g0_fp(uint32_t h, int32_t x) { env_log(35, 0, h, (uint64_t)(int64_t)x); return (int32_t)env_u64(40); }
static int32_t g1_fp(uint32_t h, int32_t x) { env_log(35, 1, h, (uint64_t)(int64_t)x); return (int32_t)env_u64(40); }
K uint64_t k_fnptr_arg(uint64_t b0, uint64_t b1, uint32_t inst, uint32_t opaque) {
  RL s[2]; setup(s, b0, b1);
  s[0].get_sandbox_impl()->add_symbol("gf_fp", (void*)&g0_fp, 0x180); s[1].get_sandbox_impl()->add_symbol("gf_fp", (void*)&g1_fp, 0x280);
  auto run = [&](RL& sb) {
    auto a = sb.get_sandbox_function_address(gf_s1);
    if (opaque) { auto o = a.to_opaque(); return (uint64_t)sb.invoke_sandbox_function(gf_fp, o, 3).UNSAFE_unverified(); }
    return (uint64_t)sb.invoke_sandbox_function(gf_fp, a, 3).UNSAFE_unverified();
  };
  return (inst & 1) ? run(s[1]) : run(s[0]);
}
// both instances invoked for the same name, in either order: each must reach its own library
K uint64_t k_two_instances(uint64_t b0, uint64_t b1, uint32_t first, long v) {
  RL s[2]; setup(s, b0, b1);
  auto run = [&](RL& x, RL& y) {
    auto r1 = x.invoke_sandbox_function(gf_s1, v);
    auto r2 = y.invoke_sandbox_function(gf_s1, v);
    auto r3 = x.invoke_sandbox_function(gf_s1, v);
    return (uint64_t)r3.UNSAFE_unverified();
  };
  return (first & 1) ? run(s[1], s[0]) : run(s[0], s[1]);
}
// address of a sandbox function: the backend's function-pointer representation, before or after an invocation
K uint64_t k_fn_address(uint64_t b0, uint64_t b1, uint32_t invoke_first, uint32_t inst) {
  RL s[2]; setup(s, b0, b1);
  auto run = [&](RL& sb) {
    if (invoke_first) sb.invoke_sandbox_function(gf_s1, 5L);
    auto a = sb.get_sandbox_function_address(gf_s1);
    static_assert(std::is_same_v<decltype(a), tainted<long (*)(long), BM>>);
    auto rep = a.UNSAFE_sandboxed(sb);
    if (!invoke_first) sb.invoke_sandbox_function(gf_s1, 5L);
    return (uint64_t)rep;
  };
  return (inst & 1) ? run(s[1]) : run(s[0]);
}
// const-qualified 64-bit arguments: a plain const long long and one that lives in sandbox memory behind a pointer to const
long gf_cll(long long, long long);
static int32_t g0_cll(int64_t a, int64_t b) { env_log(36, 0, (uint64_t)a, (uint64_t)b); return (int32_t)env_u64(40); }
K uint64_t k_const_llong(uint64_t b0, uint64_t b1, uint64_t cell, long long v) {
  RL s[2]; setup(s, b0, b1);
  s[0].get_sandbox_impl()->add_symbol("gf_cll", (void*)&g0_cll, 0x1a0);
  const long long cv = v;
  auto pc = mk_tainted<const long long*, BM>(cell);
  auto r = s[0].invoke_sandbox_function(gf_cll, cv, *pc);
  return (uint64_t)r.UNSAFE_unverified();
}
// the same sandbox object is destroyed and created again with ANOTHER library that exports the same name: names used
// by the first incarnation (invoked and/or address taken) must be resolved afresh
K uint64_t k_reincarnate(uint64_t b0, uint64_t b1, uint32_t took_addr, long v) {
  RL s[2]; setup(s, b0, b1);
  s[0].invoke_sandbox_function(gf_s1, v);
  if (took_addr) s[0].get_sandbox_function_address(gf_s1);
  s[0].destroy_sandbox();
  s[0].create_sandbox(b0, 0u);
  s[0].get_sandbox_impl()->clear_symbols();
  s[0].get_sandbox_impl()->add_symbol("gf_s1", (void*)&g1_s1, 0x308);
  env_log(50, 0, 0, 0);
  auto a = s[0].get_sandbox_function_address(gf_s1);
  auto rep = a.UNSAFE_sandboxed(s[0]);
  s[0].invoke_sandbox_function(gf_s1, v);
  return (uint64_t)rep;
}
''')
    return "\n".join(s) + "\n"


def bm_two_bases(ctx):
    """two disjoint 4 GiB regions at page-aligned (not size-aligned) bases"""
    b0 = ctx.sandbox_base(32, "b0", aligned=False)
    b1 = ctx.sandbox_base(32, "b1", aligned=False)
    sz = BV(1 << 32, 64)
    ctx.assume(z3.Or(z3.UGE(b0, b1 + sz), z3.UGE(b1, b0 + sz)))
    return b0, b1


def logs(q, lo, hi):
    return [e for e in (q.user.get("log") or []) if lo <= e[0] <= hi]


def bv(v):
    return BV(v, 64) if isinstance(v, int) else v


def check_sig(ctx, name, form):
    ctx.eng.max_strlen = 64
    ret, ps = SIGS[name]
    r = P[ret]
    b0, b1 = bm_two_bases(ctx)
    inst = ctx.sym("inst", 32)
    ctx.assume(z3.ULE(inst, 1))
    base = z3.If(inst == 0, b0, b1)
    vs = []
    for i, p in enumerate(ps):
        t = P[p]
        v = ctx.sym("v%d" % i, 64 if t.ptr else t.abits)
        if t.ptr:
            ctx.assume(z3.Or(v == 0, z3.And(z3.UGT(v, base), z3.ULT(v - base, BV(SIZE, 64)))))
        vs.append(v)
    paths = ctx.run("k_%s_%s" % (name, form), [b0, b1, inst] + vs)
    fits = []
    images = []
    for v, p in zip(vs, ps):
        t = P[p]
        if t.ptr:
            images.append(z3.If(v == 0, BV(0, 64), zext(z3.Extract(31, 0, v - base), 64)))
        else:
            V = ext(v, t.signed)
            lim = C.IT("g", "", t.gbits, t.signed)
            fits.append(z3.And(V >= lim.min, V <= lim.max))
            images.append(sext(v, 64) if t.signed else zext(v, 64))
    allfit = z3.And(*fits) if fits else z3.BoolVal(True)
    for q in paths:
        g = logs(q, 30, 39)
        env = [v for (tg, v) in (q.user.get("env") or []) if tg == 40]
        if q.status == "ret":
            ncalls = len([e for e in g if e[0] == 30])
            conj = [allfit, z3.BoolVal(ncalls == 1)]
            got = []
            for e in g:
                conj.append(bv(e[1]) == zext(inst, 64))
                got += [bv(e[2]), bv(e[3])]
            for i, im in enumerate(images):
                conj.append(got[i] == im if i < len(got) else z3.BoolVal(False))
            if env:
                rv = env[0]
                if r.ptr:
                    g32 = zext(z3.Extract(31, 0, rv), 64)
                    conj.append(q.ret == z3.If(g32 == 0, BV(0, 64), base + g32))
                else:
                    gr = z3.Extract(r.gbits - 1, 0, rv)
                    conj.append(z3.Extract(r.abits - 1, 0, q.ret) == (sext(gr, r.abits) if r.signed else zext(gr, r.abits)))
            else:
                conj.append(z3.BoolVal(False))
            ctx.require(q, z3.And(*conj), "the named function of the instance's own library ran exactly once, saw every argument in the guest ABI, and its result came back converted")
        elif q.status == "abort":
            ctx.require(q, z3.And(z3.Not(allfit), z3.BoolVal(len(g) == 0)), "aborts only before the call and only when some argument is not representable")
    ctx.only(paths, "ret", "abort")
    ctx.expect(paths, ret=1)
    ctx.validate_paths(paths, 6)


def check_two(ctx):
    ctx.eng.max_strlen = 64
    b0, b1 = bm_two_bases(ctx)
    first = ctx.sym("first", 32)
    v = ctx.sym("v", 64)
    ctx.assume(z3.ULE(first, 1), sext(v, 128) >= -(1 << 31), sext(v, 128) < (1 << 31))
    paths = ctx.run("k_two_instances", [b0, b1, first, v])
    for q in paths:
        if q.status == "ret":
            g = [e for e in logs(q, 30, 30)]
            f = zext(first, 64)
            ctx.require(q, z3.And(z3.BoolVal(len(g) == 3), bv(g[0][1]) == f, bv(g[1][1]) == (f ^ 1), bv(g[2][1]) == f) if len(g) == 3 else z3.BoolVal(False),
                        "symbol addresses looked up for one sandbox instance are never used for another")
            lk = [e for e in (q.user.get("log") or []) if e[0] == 0x205]
            ctx.require(q, z3.BoolVal(len(lk) == 2), "each instance resolves the name once in its own library and then uses its cache")
    ctx.only(paths, "ret")
    ctx.expect(paths, ret=2)


def check_reincarnate(ctx):
    ctx.eng.max_strlen = 64
    b0, b1 = bm_two_bases(ctx)
    took = ctx.sym("took_addr", 32)
    v = ctx.sym("v", 64)
    ctx.assume(z3.ULE(took, 1), sext(v, 128) >= -(1 << 31), sext(v, 128) < (1 << 31))
    paths = ctx.run("k_reincarnate", [b0, b1, took, v])
    for q in paths:
        if q.status == "ret":
            lg = q.user.get("log") or []
            cut = [i for i, e in enumerate(lg) if e[0] == 50][0]
            after = [e for e in lg[cut:] if e[0] == 30]
            ctx.require(q, z3.And(z3.BoolVal(len(after) == 1), bv(after[0][1]) == 1) if after else z3.BoolVal(False),
                        "after destroy + create with another library the name reaches the new library's function, not a cached address of the old one")
            ctx.require(q, q.ret == 0x308, "the function address handed out after re-creation is the new library's", judge=lambda no, m: no["ret"] == 0x308)
        else:
            ctx.fail(q, "re-created sandbox could not invoke (%s: %s)" % (q.status, q.info))
    ctx.expect(paths, ret=2)


def check_const_llong(ctx):
    ctx.eng.max_strlen = 64
    b0, b1 = bm_two_bases(ctx)
    cell = ctx.sym("cell", 64)
    v = ctx.sym("v", 64)
    ctx.assume(z3.UGE(cell, b0), z3.ULE(cell - b0, BV((1 << 32) - 8, 64)))
    mem0 = ctx.eng.initial_memory()
    inmem = z3.Concat(*[z3.Select(mem0, cell + BV(i, 64)) for i in reversed(range(8))])
    paths = ctx.run("k_const_llong", [b0, b1, cell, v])
    for q in paths:
        if q.status == "ret":
            g = logs(q, 36, 36)
            ctx.require(q, z3.And(z3.BoolVal(len(g) == 1), bv(g[0][2]) == v, bv(g[0][3]) == inmem) if g else z3.BoolVal(False),
                        "const-qualified long long arguments (plain, and read from sandbox memory through a pointer to const) reach the guest with all 64 bits")
        else:
            ctx.fail(q, "a representable const long long argument made the call fail (%s: %s)" % (q.status, q.info))
    ctx.expect(paths, ret=1)


def check_fnaddr(ctx):
    ctx.eng.max_strlen = 64
    b0, b1 = bm_two_bases(ctx)
    inv = ctx.sym("invoke_first", 32)
    inst = ctx.sym("inst", 32)
    ctx.assume(z3.ULE(inv, 1), z3.ULE(inst, 1))
    paths = ctx.run("k_fn_address", [b0, b1, inv, inst])
    h = z3.If(inst == 0, BV(0x100 + 8, 64), BV(0x200 + 8, 64))
    for q in paths:
        if q.status == "ret":
            ctx.require(q, q.ret == h, "the address of a sandbox function is the backend's function-pointer representation of that function, before or after an invocation",
                        known=[("C11-shared-symbol-cache", inv == 1)], judge=lambda no, m: no["ret"] == mval(m, h))
            g = logs(q, 30, 30)
            ctx.require(q, z3.And(z3.BoolVal(len(g) == 1), bv(g[0][1]) == zext(inst, 64)) if g else z3.BoolVal(False),
                        "the invocation reaches the function of this instance's library, whether or not its address was taken first",
                        known=[("C11-shared-symbol-cache", inv == 0)])
        else:
            ctx.fail(q, "the invocation did not reach a function of the library (%s: %s)" % (q.status, q.info))
    ctx.expect(paths, ret=2)


def check_fnptr_arg(ctx):
    ctx.eng.max_strlen = 64
    b0, b1 = bm_two_bases(ctx)
    inst = ctx.sym("inst", 32)
    opq = ctx.sym("opaque", 32)
    ctx.assume(z3.ULE(inst, 1), z3.ULE(opq, 1))
    paths = ctx.run("k_fnptr_arg", [b0, b1, inst, opq])
    h = z3.If(inst == 0, BV(0x100 + 8, 64), BV(0x200 + 8, 64))
    for q in paths:
        if q.status == "ret":
            g = logs(q, 35, 35)
            ctx.require(q, z3.And(z3.BoolVal(len(g) == 1), bv(g[0][1]) == zext(inst, 64), bv(g[0][2]) == h, bv(g[0][3]) == 3) if g else z3.BoolVal(False),
                        "a function-pointer argument arrives as the backend's function-pointer representation of that function")
        else:
            ctx.fail(q, "invocation with a function-pointer argument failed: %s" % q.info)
    ctx.expect(paths, ret=4)


NOOP_SRC = r'''
#include "verif_env.hpp"
#define RLBOX_USE_STATIC_CALLS() rlbox_noop_sandbox_lookup_symbol
#include "rlbox.hpp"
#include "rlbox_noop_sandbox.hpp"
#include "rbtree_model.cpp"
#include "verif_util.hpp"
using namespace rlbox;
using NS = rlbox_noop_sandbox;
extern "C" long lib_f(long a, unsigned char b, int* p) { env_log(30, (uint64_t)a, b, (uint64_t)p); return (long)env_u64(40); }
K uint64_t k_noop_static(long a, unsigned char b, uint64_t p) {
  rlbox_sandbox<NS> sb; sb.create_sandbox();
  tainted<unsigned char, NS> tb = b;
  auto r = sb.invoke_sandbox_function(lib_f, a, tb, mk_tainted<int*, NS>(p));
  auto fa = sb.get_sandbox_function_address(lib_f);
  env_log(41, (uint64_t)fa.UNSAFE_unverified(), (uint64_t)&lib_f, 0);
  sb.destroy_sandbox();
  return (uint64_t)r.UNSAFE_unverified();
}
'''


def check_noop(ctx):
    a = ctx.sym("a", 64)
    b = ctx.sym("b", 8)
    p = ctx.sym("p", 64)
    paths = ctx.run("k_noop_static", [a, b, p])
    for q in paths:
        if q.status == "ret":
            g = logs(q, 30, 30)
            env = [v for (tg, v) in q.user["env"] if tg == 40]
            fa = logs(q, 41, 41)
            ctx.require(q, z3.And(z3.BoolVal(len(g) == 1), bv(g[0][1]) == a, bv(g[0][2]) == zext(b, 64), bv(g[0][3]) == p, q.ret == env[0], bv(fa[0][1]) == bv(fa[0][2])),
                        "static-call mode: exactly the named function runs once with identical arguments; its address is the function itself")
    ctx.only(paths, "ret")
    ctx.expect(paths, ret=1)


def check_dylib_recreate(ctx):
    ctx.eng.max_strlen = 64
    keep = ctx.sym("keep_other", 32)
    x = ctx.sym("x", 32)
    ctx.assume(z3.ULE(keep, 1))
    paths = ctx.run("k_dylib_recreate", [keep, x])
    for q in paths:
        if q.status != "ret":
            ctx.fail(q, "re-creating a dylib sandbox object with another library ended %s (%s)" % (q.status, q.info))
            continue
        lg = q.user.get("log") or []
        r, m = ctx.eng.check_sat(q.pc)
        cv = lambda t: t if isinstance(t, int) else mval(m, t)      # the library number depends on keep_other only, which the path fixes
        want, ok, why = None, True, ""
        for e in lg:
            if e[0] == 29:
                want = (cv(e[1]), cv(e[2]))
            elif e[0] == 30:
                if want is None or (cv(e[1]), cv(e[2])) != want:
                    ok, why = False, "library %s function %s ran, expected %s" % (cv(e[1]), cv(e[2]), want)
                want = None
        ctx.require(q, z3.BoolVal(ok and want is None), "after destroy + create with another library every name resolves in the library of the current incarnation (%s)" % why)
    ctx.expect(paths, ret=2)


def check_dylib_foreign(ctx):
    ctx.eng.max_strlen = 64
    x = ctx.sym("x", 32)
    paths = ctx.run("k_dylib_foreign_name", [x])
    for q in paths:
        lg = q.user.get("log") or []
        reached = any(e[0] == 35 for e in lg)
        ran = [e for e in lg if e[0] == 30 and e[1] == 99]
        ctx.require(q, z3.BoolVal(q.status == "abort" and reached and not ran),
                    "a name the instance's library does not export is refused before the call, never resolved in the application's global scope (%s, application function ran %d times)"
                    % (q.status, len(ran)))
    ctx.expect(paths, abort=1)


def check_unreg_arg(ctx):
    b0 = ctx.sandbox_base(32, "b0", aligned=False)
    how = ctx.sym("how", 32)
    x = ctx.sym("x", 32)
    ctx.assume(z3.ULE(how, 3))
    paths = ctx.run("k_bm_unreg_arg", [b0, how, x])
    seen = set()
    for q in paths:
        if q.status != "ret":
            ctx.fail(q, "passing a callback owner ended %s (%s)" % (q.status, q.info))
            continue
        lg = q.user.get("log") or []
        inert = [e for e in lg if e[0] == 31][0][1]
        got = [e for e in lg if e[0] == 30]
        bodies = [e[1] for e in lg if e[0] == 20]
        seen.add(inert)
        if inert:
            ctx.require(q, z3.BoolVal(len(got) == 1 and isinstance(got[0][1], int) and got[0][1] == 0 and bodies == []),
                        "an inert (unregistered / moved-from) owner reaches the callee as the null function pointer and no callback runs (callee saw %s, bodies %s)"
                        % ([str(e[1]) for e in got], bodies))
        else:
            ctx.require(q, z3.BoolVal(len(got) == 1 and bodies == [1]), "control: a registered owner reaches the callee as its entry point and exactly its function runs")
    ctx.expect(paths, ret=2)
    if seen != {0, 1}:
        ctx.inconclusive.append("did not see both inert and registered owners: %s" % seen)


def check_dylib_two(ctx):
    ctx.eng.max_strlen = 64
    order = ctx.sym("order", 32)
    x = ctx.sym("x", 32)
    ctx.assume(z3.ULE(order, 3))
    paths = ctx.run("k_dylib_two", [order, x])
    for q in paths:
        if q.status != "ret":
            ctx.fail(q, "two live dylib instances: the sequence ended %s (%s)" % (q.status, q.info))
            continue
        lg = q.user.get("log") or []
        ok, why = True, ""
        want = None
        for e in lg:
            if e[0] == 29:
                if want is not None:
                    ok, why = False, "an invocation reached no library function"
                want = (e[1], e[2])
            elif e[0] == 30:
                if want is None or (e[1], e[2]) != want:
                    ok, why = False, "library %s function %s ran, expected %s" % (e[1], e[2], want)
                want = None
        if want is not None:
            ok, why = False, "the last invocation reached no library function"
        opened = [e[1] for e in q.events if e[0] == "dlopen"]
        closed = [symex.simp(e[1]).as_long() for e in q.events if e[0] == "dlclose"]
        hs = [0x7E0000000000 + n * 0x100 for n in opened]
        ctx.require(q, z3.BoolVal(ok), "every by-name invocation runs the function of the library its own sandbox instance was created with (%s)" % why)
        ctx.require(q, z3.BoolVal(len(opened) == 2 and sorted(closed) == sorted(hs)), "each instance closes exactly its own library handle (opened %s, closed %s)" % (hs, closed))
    ctx.expect(paths, ret=4)


def jobs(tier, seed):
    if tier == "thorough":
        SIGS.update(SIGS12)
    src = gen_source()
    fl = ["-D_GLIBCXX_EXTERN_TEMPLATE=0"]
    items = [dict(name="BM %s %s" % (n, f), fn=check_sig, kw=dict(name=n, form=f), unwind=300) for n in SIGS for f in FORMS]
    items += [dict(name="BM two instances same name", fn=check_two, unwind=300), dict(name="BM function address before/after invoke", fn=check_fnaddr, unwind=300),
              dict(name="BM function pointer argument", fn=check_fnptr_arg, unwind=300),
              dict(name="BM destroy + create with another library", fn=check_reincarnate, unwind=300),
              dict(name="BM const long long arguments", fn=check_const_llong, unwind=300)]
    out = [Job("C11_bm_%d" % i, src, items[i::6], flags=fl) for i in range(6)]
    # structs passed and returned by value (nested structs, multi-dimensional array members): kernels and oracles of C08
    from specs import C08
    for j in C08.jobs("quick", seed):
        if j.name in ("C08_B32_S3", "C08_B32_S5", "C08_B32_S7"):
            keep = [c for c in j.checks if "by-value" in c["name"]]
            out.append(Job(j.name.replace("C08_", "C11_byval_"), j.source, keep, flags=j.flags, unwind=j.unwind, compare_logs=j.compare_logs, native=j.want_native))
    # callbacks passed as arguments keep denoting the callback that was passed, across nested invocations of another instance and
    # in both thread-local-storage configurations of the bundled backends: kernels and oracles of C12
    from specs import C12
    for j in C12.jobs("quick", seed):
        if j.name in ("C12_noop_nested", "C12_noop_etls_nested", "C12_dylib_nested", "C12_dylib_etls_nested"):
            out.append(Job(j.name.replace("C12_", "C11_cbarg_"), j.source, j.checks, flags=j.flags, unwind=j.unwind, compare_logs=j.compare_logs, native=j.want_native))
    out.append(Job("C11_dylib_recreate", '#include "C11_dylib2.inc"\n', [dict(name="dylib sandbox object re-created with another library", fn=check_dylib_recreate, unwind=300)], native=False))
    out.append(Job("C11_dylib_foreign", '#include "C11_dylib2.inc"\n', [dict(name="dylib name not exported by the instance's library", fn=check_dylib_foreign, unwind=300)], native=False))
    out.append(Job("C11_unreg_arg", '#include "C11_unreg.inc"\n', [dict(name="BM inert callback owner passed as an argument", fn=check_unreg_arg, unwind=300)], native=False))
    out.append(Job("C11_dylib_two", '#include "C11_dylib2.inc"\n', [dict(name="dylib two instances, two libraries, same names", fn=check_dylib_two, unwind=300)], native=False))
    out.append(Job("C11_noop_static", NOOP_SRC, [dict(name="noop static call", fn=check_noop, unwind=300)], native=False))
    return out
