"""C17 - indexing a tainted fixed-size array is bounds-checked for every index type."""
import z3
from specs.common import *  # noqa: F401,F403
from specs import common as C

META = {
    "level": "model_checking",
    "bounds": {
        "quick": "element types {char,int,long,int*} x lengths {1,3,16} x {application memory, sandbox memory (B32)} x 7 index types "
                 "(full-width symbolic index) plus int[2][3] and long[3][2] two-level indexing",
        "thorough": "all 10 standard integer index types + tainted<int>/tainted<size_t>/tainted_volatile<int> indices, lengths {1,2,3,7,16}, B16 as well",
    },
    "outside": "lengths above 16; element types other than the four listed; std::array-typed tainted values are the same code path",
    "assumptions": [],
}

ELEMS = [("char", "char", 1, 1), ("int", "int", 4, 4), ("long", "long", 8, 4), ("intp", "int*", 8, 4), ("llong", "long long", 8, 8)]
IDX = {t.tag: t for t in C.STD_INTS if t.tag != "char"}
WRAPPED = {"tint": C.INT, "tsize": C.ULONG, "tvint": C.INT}


def idx_decl(itag):
    if itag == "tvint":
        return "uint64_t cell", "auto cp = mk_tainted<int*, S>(cell); auto& n = *cp;"
    if itag in WRAPPED:
        it = WRAPPED[itag]
        return "%s nn" % it.cxx, "tainted<%s, S> n = nn;" % ("size_t" if itag == "tsize" else "int")
    return "%s n" % IDX[itag].cxx, ""


def kernel_src(mem, etag, ecxx, N, itag):
    decl, prep = idx_decl(itag)
    nm = "k_%s_%s_%d_%s" % (mem, etag, N, itag)
    if mem == "app":
        return ("K uint64_t %s(uint64_t base, tainted<%s[%d], S>* arr, %s) { S::g_base = base; %s auto& e = (*arr)[n]; "
                "return (uint64_t)(uintptr_t)&reinterpret_cast<const volatile char&>(e) - (uint64_t)(uintptr_t)arr; }"
                % (nm, ecxx, N, decl, prep))
    return ("K uint64_t %s(uint64_t base, uint64_t p, %s) { S::g_base = base; %s auto t = mk_tainted<%s(*)[%d], S>(p); auto& e = (*t)[n]; "
            "return (uint64_t)(uintptr_t)&reinterpret_cast<const volatile char&>(e) - p; }" % (nm, decl, prep, ecxx, N))


def kernel2d_src(mem, etag, ecxx, N, M):
    nm = "k2_%s_%s_%d_%d" % (mem, etag, N, M)
    if mem == "app":
        return ("K uint64_t %s(uint64_t base, tainted<%s[%d][%d], S>* arr, long i, unsigned char j) { S::g_base = base; auto& e = (*arr)[i][j]; "
                "return (uint64_t)(uintptr_t)&reinterpret_cast<const volatile char&>(e) - (uint64_t)(uintptr_t)arr; }" % (nm, ecxx, N, M))
    return ("K uint64_t %s(uint64_t base, uint64_t p, long i, unsigned char j) { S::g_base = base; auto t = mk_tainted<%s(*)[%d][%d], S>(p); auto& e = (*t)[i][j]; "
            "return (uint64_t)(uintptr_t)&reinterpret_cast<const volatile char&>(e) - p; }" % (nm, ecxx, N, M))


def check_idx(ctx, mem, etag, N, itag, stride, log):
    k = "k_%s_%s_%d_%s" % (mem, etag, N, itag)
    base = ctx.sandbox_base(log)
    size = 1 << log
    args = [base]
    b0 = 0x300000000 if log == 32 else 0x300000000 + (3 << log)
    if mem == "app":
        arr = ctx.buffer(N * stride, name="arr")
        args.append(arr)
        pv = arr
    else:
        p = ctx.sym("p", 64)
        ctx.assume(z3.UGE(p, base), z3.ULE(p - base, BV(size - N * stride, 64)))
        args.append(p)
        pv = b0 + 0x80
    it = WRAPPED.get(itag) or IDX[itag]
    if itag == "tvint":
        cell = ctx.sym("cell", 64)
        ctx.assume(z3.UGE(cell, base), z3.ULE(cell - base, BV(size - 4, 64)))
        mem0 = ctx.eng.initial_memory()
        n = z3.Concat(*[z3.Select(mem0, cell + BV(i, 64)) for i in reversed(range(4))])
        args.append(cell)
    else:
        n = ctx.sym("n", it.bits)
        args.append(n)
    Nn = ext(n, it.signed)
    inb = z3.And(Nn >= 0, Nn < N)
    paths = ctx.run(k, args)
    for q in paths:
        if q.status == "ret":
            ctx.require(q, z3.And(inb, zext(q.ret, 128) == Nn * stride),
                        "returns only for 0 <= i < N and designates exactly element i under the layout of its memory")
            oob = [e for e in q.events if e[0] == "app-oob"]
            if oob:
                ctx.fail(q, "access outside the array object: %r" % (oob[0],))
        elif q.status == "abort":
            ctx.require(q, z3.Not(inb), "aborts only when the index is negative or not smaller than the length")
    ctx.only(paths, "ret", "abort")
    ctx.expect(paths, ret=1, abort=1)
    if itag == "tvint":
        for nv in (0, N - 1, N, 0xFFFFFFFF, 0x80000000):
            ctx.validate(k, [[b0, pv, b0 + 0x40]], mem={b0 + 0x40 + i: (nv >> (8 * i)) & 0xFF for i in range(4)}, base=b0)
    else:
        nv = sorted(set(v & ((1 << it.bits) - 1) for v in [0, 1, N - 1, N, N + 1, -1, it.max, it.min, 256 + (N - 1), (1 << 32) + N - 1, 1 << 32]))
        ctx.validate(k, [[b0, pv, v] for v in nv], base=b0 if mem != "app" else None)


def check_idx_wide(ctx, mem, N, stride):
    """B32W: the index lives in sandbox memory as a 64-bit guest int and is narrowed to the application's int"""
    k = "k_%s_int_%d_tvint" % (mem, N)
    base = ctx.sandbox_base(32)
    size = 1 << 32
    args = [base]
    if mem == "app":
        arr = ctx.buffer(N * 4, name="arr")
        args.append(arr)
    else:
        p = ctx.sym("p", 64)
        ctx.assume(z3.UGE(p, base), z3.ULE(p - base, BV(size - N * 8, 64)))
        args.append(p)
    cell = ctx.sym("cell", 64)
    ctx.assume(z3.UGE(cell, base), z3.ULE(cell - base, BV(size - 8, 64)))
    mem0 = ctx.eng.initial_memory()
    n = z3.Concat(*[z3.Select(mem0, cell + BV(i, 64)) for i in reversed(range(8))])
    args.append(cell)
    Nn = sext(n, 128)
    inb = z3.And(Nn >= 0, Nn < N)
    paths = ctx.run(k, args)
    for q in paths:
        if q.status == "ret":
            ctx.require(q, z3.And(inb, zext(q.ret, 128) == Nn * stride), "returns only for 0 <= i < N (as a mathematical integer) and designates element i")
        elif q.status == "abort":
            ctx.require(q, z3.Not(inb), "aborts only when the index is out of range")
    ctx.only(paths, "ret", "abort")
    ctx.expect(paths, ret=1, abort=1)


def check_idx_adversarial(ctx, mem, N, stride):
    """the index lives in sandbox memory and the sandbox may rewrite it between any two of rlbox's reads: whatever value
    passes the bounds check is the value that designates the element"""
    from specs.C09 import adversarial
    adversarial(ctx)
    k = "k_%s_int_%d_tvint" % (mem, N)
    base = ctx.sandbox_base(32)
    size = 1 << 32
    args = [base]
    if mem == "app":
        arr = ctx.buffer(N * 4, name="arr")
        args.append(arr)
    else:
        p = ctx.sym("p", 64)
        ctx.assume(z3.UGE(p, base), z3.ULE(p - base, BV(size - N * stride, 64)))
        args.append(p)
    cell = ctx.sym("cell", 64)
    ctx.assume(z3.UGE(cell, base), z3.ULE(cell - base, BV(size - 4, 64)))
    args.append(cell)
    paths = ctx.run(k, args)
    for q in paths:
        if q.status == "ret":
            ctx.require(q, z3.And(z3.ULT(q.ret, BV(N * stride, 64)), z3.URem(q.ret, BV(stride, 64)) == 0),
                        "the designated element lies inside the array for every schedule of sandbox writes to the index")
            if [e for e in q.events if e[0] == "app-oob"]:
                ctx.fail(q, "access outside the array object")
    ctx.only(paths, "ret", "abort")
    ctx.expect(paths, ret=1, abort=1)


def check_2d(ctx, mem, etag, N, M, stride, log):
    k = "k2_%s_%s_%d_%d" % (mem, etag, N, M)
    base = ctx.sandbox_base(log)
    size = 1 << log
    args = [base]
    b0 = 0x300000000
    if mem == "app":
        arr = ctx.buffer(N * M * stride, name="arr")
        args.append(arr)
        pv = arr
    else:
        p = ctx.sym("p", 64)
        ctx.assume(z3.UGE(p, base), z3.ULE(p - base, BV(size - N * M * stride, 64)))
        args.append(p)
        pv = b0 + 0x80
    i = ctx.sym("i", 64)
    j = ctx.sym("j", 8)
    args += [i, j]
    I, J = sext(i, 128), zext(j, 128)
    inb = z3.And(I >= 0, I < N, J < M)
    paths = ctx.run(k, args)
    for q in paths:
        if q.status == "ret":
            ctx.require(q, z3.And(inb, zext(q.ret, 128) == (I * M + J) * stride), "designates element [i][j]; both indices in range")
            oob = [e for e in q.events if e[0] == "app-oob"]
            if oob:
                ctx.fail(q, "access outside the array object: %r" % (oob[0],))
        elif q.status == "abort":
            ctx.require(q, z3.Not(inb), "aborts only when an index is out of range")
    ctx.only(paths, "ret", "abort")
    ctx.expect(paths, ret=1, abort=1)
    ctx.validate(k, [[b0, pv, a, b] for a in (0, N - 1, N, N * M - 1, (1 << 64) - 1) for b in (0, M - 1, M, 255)], base=b0 if mem != "app" else None)


ENUM_SRC = """
enum EL : long { EL0 = 0 };     // underlying type whose size depends on the ABI (4 bytes in the LP32 guest)
enum EI : int { EI0 = 0 };
K uint64_t k_sbx_enuml(uint64_t base, uint64_t p, int n) { S::g_base = base; auto t = mk_tainted<EL(*)[4], S>(p); auto& e = (*t)[n];
  return (uint64_t)(uintptr_t)&reinterpret_cast<const volatile char&>(e) - p; }
K uint64_t k_sbx_enumi(uint64_t base, uint64_t p, int n) { S::g_base = base; auto t = mk_tainted<EI(*)[4], S>(p); auto& e = (*t)[n];
  return (uint64_t)(uintptr_t)&reinterpret_cast<const volatile char&>(e) - p; }
"""


def check_enum(ctx, k, known_id=None):
    base = ctx.sandbox_base(32)
    size = 1 << 32
    p = ctx.sym("p", 64)
    ctx.assume(z3.UGE(p, base), z3.ULE(p - base, BV(size - 32, 64)))
    n = ctx.sym("n", 32)
    Nn = sext(n, 128)
    inb = z3.And(Nn >= 0, Nn < 4)
    paths = ctx.run(k, [base, p, n])
    for q in paths:
        if q.status == "ret":
            known = [(known_id, z3.And(inb, zext(q.ret, 128) == Nn * 8))] if known_id else []
            ctx.require(q, z3.And(inb, zext(q.ret, 128) == Nn * 4), "designates exactly element i under the sandbox's layout (4-byte elements)", known=known)
        elif q.status == "abort":
            ctx.require(q, z3.Not(inb), "aborts only when the index is out of range")
    ctx.only(paths, "ret", "abort")
    ctx.expect(paths, ret=1, abort=1)


def check_bundled(ctx, k, N, stride, two=None):
    p = ctx.sym("p", 64)
    ctx.assume(z3.UGE(p, BV(0x100000000, 64)), z3.ULE(p, BV(0x400000000000, 64)))
    n = ctx.sym("n", 32)
    if two:
        M = two
        j = ctx.sym("j", 32)
        inb = z3.And(sext(n, 128) >= 0, sext(n, 128) < N, sext(j, 128) >= 0, sext(j, 128) < M)
        want = (sext(n, 128) * M + sext(j, 128)) * stride
        paths = ctx.run(k, [p, n, j])
    else:
        inb = z3.And(sext(n, 128) >= 0, sext(n, 128) < N)
        want = sext(n, 128) * stride
        paths = ctx.run(k, [p, n])
    for q in paths:
        if q.status == "ret":
            ctx.require(q, z3.And(inb, zext(q.ret, 128) == want), "designates exactly element i at the host element size (the bundled backends keep the host layout)")
        elif q.status == "abort":
            ctx.require(q, z3.Not(inb), "aborts only when the index is out of range")
    ctx.only(paths, "ret", "abort")
    ctx.expect(paths, ret=1, abort=1)


def jobs(tier, seed):
    out = []
    from specs.C13 import NOOP, DYLIB
    bk = [("short4", 4, 2), ("ushort3", 3, 2), ("c16_4", 4, 2), ("long3", 3, 8), ("char5", 5, 1), ("llong2", 2, 8), ("intp3", 3, 8)]
    for nm, pre in (("noop", NOOP), ("dylib", DYLIB)):
        out.append(Job("C17_%s_layout" % nm, pre + '#include "C17_bundled.inc"\n',
                       [dict(name="%s sbx %s" % (nm, t), fn=check_bundled, kw=dict(k="k_b_" + t, N=N, stride=st)) for t, N, st in bk] +
                       [dict(name="%s sbx short[2][3]" % nm, fn=check_bundled, kw=dict(k="k_b_short23", N=2, stride=2, two=3))],
                       flags=["-D_GLIBCXX_EXTERN_TEMPLATE=0"], native=False))
    out.append(Job("C17_B32_enum", C.PRELUDE + "using S = B32;\n" + ENUM_SRC,
                   [dict(name="B32 sbx (enum : long)[4]", fn=check_enum, kw=dict(k="k_sbx_enuml", known_id="C17-enum-abi-stride")),
                    dict(name="B32 sbx (enum : int)[4]", fn=check_enum, kw=dict(k="k_sbx_enumi"))], flags=["-fno-exceptions"], native=False))
    backends = [("B32", 32)] + ([("B16", 16)] if tier == "thorough" else [])
    lens = [1, 2, 3, 7, 16] if tier == "thorough" else [1, 3, 16]
    idxs = (list(IDX) + list(WRAPPED)) if tier == "thorough" else ["schar", "uchar", "int", "uint", "long", "ullong", "tint"]
    for sbx, log in backends:
        for etag, ecxx, astride, gstride in ELEMS:
            gs = gstride if not (etag == "intp" and log == 16) else 2
            for mem in ("app", "sbx"):
                combos = [(N, it) for N in lens for it in idxs]
                for gi, grp in enumerate(C.chunks(combos, 2)):
                    src = [C.PRELUDE, "using S = %s;" % sbx]
                    chks = []
                    for N, it in grp:
                        src.append(kernel_src(mem, etag, ecxx, N, it))
                        chks.append(dict(name="%s %s %s[%d] idx=%s" % (sbx, mem, etag, N, it), fn=check_idx,
                                         kw=dict(mem=mem, etag=etag, N=N, itag=it, stride=astride if mem == "app" else gs, log=log)))
                    if gi == 0 and etag in ("int", "long"):
                        N2, M2 = (2, 3) if etag == "int" else (3, 2)
                        src.append(kernel2d_src(mem, etag, ecxx, N2, M2))
                        chks.append(dict(name="%s %s %s[%d][%d]" % (sbx, mem, etag, N2, M2), fn=check_2d,
                                         kw=dict(mem=mem, etag=etag, N=N2, M=M2, stride=astride if mem == "app" else gs, log=log)))
                    out.append(Job("C17_%s_%s_%s_%d" % (sbx, mem, etag, gi), "\n".join(src) + "\n", chks, flags=["-fno-exceptions"]))
    # configuration: RLBOX_USE_EXCEPTIONS requested on a TU built without exception support - a refused index still stops
    csrc = [C.PRELUDE, "using S = B32;"] + [kernel_src(mem, "int", "int", 3, it) for mem in ("app", "sbx") for it in ("int", "ullong")]
    out.append(Job("C17_B32_cfg_noexc", "\n".join(csrc) + "\n",
                   [dict(name="B32 %s int[3] idx=%s [RLBOX_USE_EXCEPTIONS, -fno-exceptions]" % (mem, it), fn=check_idx, kw=dict(mem=mem, etag="int", N=3, itag=it, stride=4, log=32))
                    for mem in ("app", "sbx") for it in ("int", "ullong")], flags=["-fno-exceptions", "-DRLBOX_USE_EXCEPTIONS"]))
    # arrays longer than the range of a narrow index type: a negative index must not alias a valid one after conversion
    lsrc = [C.PRELUDE, "using S = B32;", kernel_src("app", "int", "int", 300, "schar"), kernel_src("sbx", "int", "int", 300, "schar"),
            kernel_src("sbx", "char", "char", 40000, "short")]
    out.append(Job("C17_B32_long_arrays", "\n".join(lsrc) + "\n",
                   [dict(name="B32 app int[300] idx=schar", fn=check_idx, kw=dict(mem="app", etag="int", N=300, itag="schar", stride=4, log=32)),
                    dict(name="B32 sbx int[300] idx=schar", fn=check_idx, kw=dict(mem="sbx", etag="int", N=300, itag="schar", stride=4, log=32)),
                    dict(name="B32 sbx char[40000] idx=short", fn=check_idx, kw=dict(mem="sbx", etag="char", N=40000, itag="short", stride=1, log=32))],
                   flags=["-fno-exceptions"]))
    asrc = [C.PRELUDE, "using S = B32;", kernel_src("app", "int", "int", 3, "tvint"), kernel_src("sbx", "int", "int", 3, "tvint")]
    out.append(Job("C17_B32_adversarial_index", "\n".join(asrc) + "\n",
                   [dict(name="B32 app int[3] idx=tainted_volatile<int>, adversarial memory", fn=check_idx_adversarial, kw=dict(mem="app", N=3, stride=4)),
                    dict(name="B32 sbx int[3] idx=tainted_volatile<int>, adversarial memory", fn=check_idx_adversarial, kw=dict(mem="sbx", N=3, stride=4))],
                   flags=["-fno-exceptions"], native=False))
    # guest int wider than the application's int: sandbox-resident indices are narrowed
    wsrc = [C.PRELUDE, "using S = B32W;", kernel_src("app", "int", "int", 3, "tvint"), kernel_src("sbx", "int", "int", 3, "tvint")]
    out.append(Job("C17_B32W", "\n".join(wsrc) + "\n", [dict(name="B32W app int[3] idx=tainted_volatile<int> (64-bit guest int)", fn=check_idx_wide, kw=dict(mem="app", N=3, stride=4)),
                                                          dict(name="B32W sbx int[3] idx=tainted_volatile<int> (64-bit guest int)", fn=check_idx_wide, kw=dict(mem="sbx", N=3, stride=8))],
                   flags=["-fno-exceptions"], native=False))
    return out
