"""C07 - sandbox-memory accesses use exactly the bytes and encoding of the sandbox ABI."""
import z3
from specs.common import *  # noqa: F401,F403
from specs import common as C

META = {
    "level": "model_checking",
    "bounds": {
        "quick": "store *p=v and four load forms (conversion to tainted, UNSAFE_unverified on the reference, copy_and_verify on the pointer, "
                 "copy_and_verify_range n<=3) for 16 scalar types incl. bool/enum/float/double bit patterns and pointers, arrays int[3], long[3], "
                 "int*[2], struct fields; p anywhere the guest object fits (incl. ending at the last byte), all of sandbox memory symbolic",
        "thorough": "same plus B16 and copy_and_verify_range n<=4 for every integer type",
    },
    "outside": "types other than those listed; float arithmetic (floats are carried as bit patterns)",
    "assumptions": ["access log = every load/store/bulk event the engine saw with an address outside application objects"],
}


class TY:
    def __init__(self, tag, cxx, abits, gbits, signed, kind="int"):
        self.tag, self.cxx, self.abits, self.gbits, self.signed, self.kind = tag, cxx, abits, gbits, signed, kind


def types(pb):
    t = [TY(x.tag, x.cxx, x.bits, x.gbits, x.signed) for x in C.TAINTABLE_INTS]
    t += [TY("bool", "bool", 8, 8, False, "bool"), TY("enum", "VEnum", 32, 32, False, "enum"),
          TY("float", "float", 32, 32, False, "fp"), TY("double", "double", 64, 64, False, "fp"),
          TY("intp", "int*", 64, pb * 8, False, "ptr"), TY("voidp", "void*", 64, pb * 8, False, "ptr")]
    return t


HEAD = "enum VEnum { VE_A, VE_B = 77, VE_C = 0x7fffffff };\n"


def scalar_src(t):
    T = t.cxx
    bits_in = {"fp": "uint%d_t" % t.abits}.get(t.kind)
    s = []
    if t.kind == "ptr":
        s.append("K void k_store_%s(uint64_t base, uint64_t p, uint64_t v) { S::g_base = base; auto t = mk_tainted<%s*, S>(p); *t = mk_tainted<%s, S>(v); }" % (t.tag, T, T))
        s.append("K uint64_t k_load_%s(uint64_t base, uint64_t p) { S::g_base = base; auto t = mk_tainted<%s*, S>(p); tainted<%s, S> x = *t; return raw_bits(x); }" % (t.tag, T, T))
        s.append("K uint64_t k_loadu_%s(uint64_t base, uint64_t p) { S::g_base = base; auto t = mk_tainted<%s*, S>(p); return (uint64_t)t->UNSAFE_unverified(); }" % (t.tag, T))
        return s
    if t.kind == "fp":
        cvt_in = "%s v; std::memcpy(&v, &vb, sizeof(v));" % T
        arg = "%s vb" % bits_in
        ret = "%s r; std::memcpy(&r, &x, sizeof(r)); return r;" % bits_in
    elif t.kind == "enum":
        cvt_in, arg, ret = "VEnum v = (VEnum)vb;", "uint32_t vb", "return (uint64_t)x;"
    else:
        cvt_in, arg, ret = "", "%s v" % T, "return (uint64_t)x;"
    s.append("K void k_store_%s(uint64_t base, uint64_t p, %s) { S::g_base = base; %s auto t = mk_tainted<%s*, S>(p); *t = v; }" % (t.tag, arg, cvt_in, T))
    s.append("K uint64_t k_load_%s(uint64_t base, uint64_t p) { S::g_base = base; auto t = mk_tainted<%s*, S>(p); tainted<%s, S> tx = *t; auto x = tx.UNSAFE_unverified(); %s }" % (t.tag, T, T, ret))
    s.append("K uint64_t k_loadu_%s(uint64_t base, uint64_t p) { S::g_base = base; auto t = mk_tainted<%s*, S>(p); auto x = t->UNSAFE_unverified(); %s }" % (t.tag, T, ret))
    s.append("K uint64_t k_cav_%s(uint64_t base, uint64_t p) { S::g_base = base; auto t = mk_tainted<%s*, S>(p); "
             "using TT = %s; auto x = t.copy_and_verify([](std::unique_ptr<TT> v) { return v ? *v : TT{}; }); %s }" % (t.tag, T, T, ret))
    if t.kind == "int":
        s.append("K uint64_t k_cavr_%s(uint64_t base, uint64_t p, uint32_t n, uint32_t i) { S::g_base = base; auto t = mk_tainted<%s*, S>(p); "
                 "auto a = t.copy_and_verify_range([](std::unique_ptr<%s[]> v) { return v; }, n); if (!a) return 0xdead; auto x = a[i]; %s }" % (t.tag, T, T, ret))
    return s


def decode(mem, addr, nbytes):
    return z3.Concat(*[z3.Select(mem, addr + BV(i, 64)) for i in reversed(range(nbytes))]) if nbytes > 1 else z3.Select(mem, addr)


def footprint_ok(ctx, q, lo, n, kinds):
    evs = [e for e in q.events if e[0] in kinds and not isinstance(e[1], int)]
    if not evs:
        return z3.BoolVal(False)
    return z3.And(*[z3.And(z3.UGE(e[1], lo), z3.ULE(e[1] - lo + BV(e[2], 64), BV(n, 64))) for e in evs])


LD = ("ld", "ld-bulk", "ld-atomic")
ST = ("st", "st-bulk", "st-atomic")


def check_store(ctx, t, log):
    k = "k_store_" + t.tag
    base = ctx.sandbox_base(log)
    size = 1 << log
    gb = t.gbits // 8
    p = ctx.sym("p", 64)
    ctx.assume(z3.UGE(p, base), z3.ULE(p - base, BV(size - gb, 64)))
    vbits = 64 if t.kind == "ptr" else (8 if t.kind == "bool" else t.abits)
    v = ctx.sym("v", 1 if t.kind == "bool" else vbits)
    if t.kind == "ptr":
        ctx.assume(z3.Or(v == 0, ctx.in_region(v, base, size)))
    if t.kind == "enum":
        pass
    paths = ctx.run(k, [base, p, v])
    mem0 = ctx.eng.initial_memory()
    x = ctx.sym("x_any", 64)
    for q in paths:
        if q.status == "ret":
            got = decode(q.mem, p, gb)
            if t.kind == "ptr":
                want = z3.If(v == 0, BV(0, t.gbits), z3.Extract(t.gbits - 1, 0, v - base))
                enc = got == want
            elif t.kind == "bool":
                enc = got == zext(v, 8)
            elif t.kind == "int" and t.gbits < t.abits:
                enc = ext(got, t.signed) == ext(v, t.signed)
            else:
                enc = got == v
            ctx.require(q, enc, "the guest bytes of the object hold the guest-ABI encoding of the value")
            ctx.require(q, z3.Implies(z3.Or(z3.ULT(x, p), z3.UGE(x - p, BV(gb, 64))), z3.Select(q.mem, x) == z3.Select(mem0, x)),
                        "no byte outside the object's guest footprint changes")
            ctx.require(q, footprint_ok(ctx, q, p, gb, ST), "every store lies inside the guest footprint [p, p+size_guest)")
            rd = [e for e in q.events if e[0] in LD and not isinstance(e[1], int)]
            if rd:
                ctx.require(q, footprint_ok(ctx, q, p, gb, LD), "a store does not read outside the footprint")
        elif q.status == "abort":
            if t.kind == "int" and t.gbits < t.abits:
                V = ext(v, t.signed)
                lim = C.IT("g", "", t.gbits, t.signed)
                ctx.require(q, z3.Not(z3.And(V >= lim.min, V <= lim.max)), "store aborts only when the value does not fit the guest type")
            else:
                ctx.fail(q, "store of a representable value aborted")
    ctx.only(paths, "ret", "abort")
    ctx.expect(paths, ret=1)
    b0 = 0x300000000 if log == 32 else 0x300000000 + (4 << log)
    if t.kind == "ptr":
        vals = [0, b0 + 1, b0 + size - 1]
    else:
        vals = [0, 1, (1 << (vbits if t.kind != "bool" else 1)) - 1, 0x7F, 0x80]
        vals = sorted(set(x_ & ((1 << (1 if t.kind == "bool" else vbits)) - 1) for x_ in vals))
    ctx.validate(k, [[b0, pp, vv] for pp in (b0, b0 + size - gb, b0 + 0x41 % (size - 16)) for vv in vals], base=b0)


def check_load(ctx, t, log, form):
    k = "k_%s_%s" % (form, t.tag)
    base = ctx.sandbox_base(log)
    size = 1 << log
    gb = t.gbits // 8
    p = ctx.sym("p", 64)
    ctx.assume(z3.UGE(p, base), z3.ULE(p - base, BV(size - gb, 64)))
    mem0 = ctx.eng.initial_memory()
    raw = decode(mem0, p, gb)
    if t.kind == "bool":
        # only 0 and 1 are encodings of a bool under any ABI; other byte values are outside the claim
        ctx.assume(z3.ULE(raw, 1))
    paths = ctx.run(k, [base, p])
    for q in paths:
        if q.status == "ret":
            if t.kind == "ptr":
                want = z3.If(raw == 0, BV(0, 64), base + zext(raw, 64))
                ok = q.ret == want
            elif t.kind == "bool":
                ok = z3.Extract(0, 0, q.ret) == z3.If(raw != 0, BV(1, 1), BV(0, 1))
            elif t.kind == "int":
                ok = ext(z3.Extract(t.abits - 1, 0, q.ret), t.signed) == ext(raw, t.signed)
            else:
                ok = z3.Extract(t.abits - 1, 0, q.ret) == raw
            known = []
            ctx.require(q, ok, "a load decodes exactly the guest bytes of the object under the guest ABI")
            ctx.require(q, footprint_ok(ctx, q, p, gb, LD), "every read lies inside the guest footprint [p, p+size_guest)")
            wr = [e for e in q.events if e[0] in ST and not isinstance(e[1], int)]
            if wr:
                ctx.fail(q, "a load wrote to sandbox memory")
    ctx.only(paths, "ret")
    ctx.expect(paths, ret=1)
    b0 = 0x300000000 if log == 32 else 0x300000000 + (4 << log)
    for pat in ([0x01, 0, 0, 0, 0, 0, 0, 0], [0xFF] * 8, [0x78, 0x56, 0x34, 0x12, 0xEF, 0xCD, 0xAB, 0x80]):
        if t.kind == "bool":
            pat = [pat[0] & 1] + pat[1:]
        for pp in (b0 + 0x40 % (size - 16), b0 + size - gb):
            mem = {pp + i: pat[i] for i in range(gb)}
            ctx.validate(k, [[b0, pp]], mem=mem, base=b0)


def check_range(ctx, t, log, nmax):
    k = "k_cavr_" + t.tag
    base = ctx.sandbox_base(log)
    size = 1 << log
    gb = t.gbits // 8
    p = ctx.sym("p", 64)
    n = ctx.sym("n", 32)
    i = ctx.sym("i", 32)
    ctx.assume(z3.UGE(n, 1), z3.ULE(n, nmax), z3.ULT(i, n))
    ab = t.abits // 8
    # the range of n guest-sized elements fits, possibly ending at the last byte of the region: the copy must go through
    ctx.assume(z3.UGE(p, base), z3.ULE(p - base + zext(n, 64) * gb, BV(size, 64)))
    paths = ctx.run(k, [base, p, n, i])
    mem0 = ctx.eng.initial_memory()
    for q in paths:
        if q.status == "ret":
            els = [decode(mem0, p + BV(j * gb, 64), gb) for j in range(nmax)]
            want = els[nmax - 1]
            for j in reversed(range(nmax - 1)):
                want = z3.If(i == j, els[j], want)
            ctx.require(q, ext(z3.Extract(t.abits - 1, 0, q.ret), t.signed) == ext(want, t.signed),
                        "element i of the copied range is the decode of guest element i (guest stride)")
            rd = [e for e in q.events if e[0] in LD and not isinstance(e[1], int)]
            ctx.require(q, z3.And(*[z3.And(z3.UGE(e[1], p), z3.ULE(e[1] - p + BV(e[2], 64), zext(n, 64) * gb)) for e in rd]) if rd else z3.BoolVal(False),
                        "the range copy reads only [p, p+n*size_guest)")
    ctx.only(paths, "ret", "alloc-fail")
    ctx.expect(paths, ret=1)


# ------------------------------------------------------------------ arrays and struct fields
AGG_SRC = r'''
#include "verif_structs.hpp"
K void k_store_arr_int3(uint64_t base, uint64_t p, int a, int b, int c) { S::g_base = base; auto t = mk_tainted<int(*)[3], S>(p); tainted<int[3], S> v; v[0] = a; v[1] = b; v[2] = c; *t = v; }
K void k_store_arr_long3(uint64_t base, uint64_t p, long a, long b, long c) { S::g_base = base; auto t = mk_tainted<long(*)[3], S>(p); tainted<long[3], S> v; v[0] = a; v[1] = b; v[2] = c; *t = v; }
K void k_load_arr_long3(uint64_t base, uint64_t p) { S::g_base = base; auto t = mk_tainted<long(*)[3], S>(p); tainted<long[3], S> v = *t;
  env_log(1, (uint64_t)v[0].UNSAFE_unverified(), (uint64_t)v[1].UNSAFE_unverified(), (uint64_t)v[2].UNSAFE_unverified()); }
K void k_store_arr_llong3(uint64_t base, uint64_t p, long long a, long long b, long long c) { S::g_base = base; auto t = mk_tainted<long long(*)[3], S>(p); tainted<long long[3], S> v; v[0] = a; v[1] = b; v[2] = c; *t = v; }
K void k_load_arr_llong3(uint64_t base, uint64_t p) { S::g_base = base; auto t = mk_tainted<long long(*)[3], S>(p); tainted<long long[3], S> v = *t;
  env_log(1, (uint64_t)v[0].UNSAFE_unverified(), (uint64_t)v[1].UNSAFE_unverified(), (uint64_t)v[2].UNSAFE_unverified()); }
K void k_store_elem_llong(uint64_t base, uint64_t p, uint32_t i, long long v) { S::g_base = base; auto t = mk_tainted<long long(*)[3], S>(p); (*t)[i] = v; }
K void k_store_elem_long(uint64_t base, uint64_t p, uint32_t i, long v) { S::g_base = base; auto t = mk_tainted<long(*)[3], S>(p); (*t)[i] = v; }
K void k_store_pidx_long(uint64_t base, uint64_t p, int i, long v) { S::g_base = base; auto t = mk_tainted<long*, S>(p); t[i] = v; }        // reference p[i], i of either sign
K uint64_t k_load_pidx_long(uint64_t base, uint64_t p, int i) { S::g_base = base; auto t = mk_tainted<long*, S>(p); tainted<long, S> r = t[i]; return (uint64_t)r.UNSAFE_unverified(); }
K void k_store_field_a(uint64_t base, uint64_t p, long v) { S::g_base = base; auto t = mk_tainted<VS24*, S>(p); t->a = v; }
K void k_store_field_c(uint64_t base, uint64_t p, int v) { S::g_base = base; auto t = mk_tainted<VS24*, S>(p); t->c = v; }
K uint64_t k_load_field_a(uint64_t base, uint64_t p) { S::g_base = base; auto t = mk_tainted<VS24*, S>(p); tainted<long, S> x = t->a; return (uint64_t)x.UNSAFE_unverified(); }
K uint64_t k_load_field_c(uint64_t base, uint64_t p) { S::g_base = base; auto t = mk_tainted<VS24*, S>(p); return (uint64_t)t->c.UNSAFE_unverified(); }
K void k_store_arr_long22(uint64_t base, uint64_t p, long a, long b, long c, long d) { S::g_base = base; auto t = mk_tainted<long(*)[2][2], S>(p);
  tainted<long[2][2], S> v; v[0][0] = a; v[0][1] = b; v[1][0] = c; v[1][1] = d; *t = v; }
K void k_load_arr_long22(uint64_t base, uint64_t p) { S::g_base = base; auto t = mk_tainted<long(*)[2][2], S>(p); tainted<long[2][2], S> v = *t;
  env_log(1, (uint64_t)v[0][0].UNSAFE_unverified(), (uint64_t)v[0][1].UNSAFE_unverified(), 0);
  env_log(2, (uint64_t)v[1][0].UNSAFE_unverified(), (uint64_t)v[1][1].UNSAFE_unverified(), 0); }
K void k_store_struct(uint64_t base, uint64_t p, long a, uint64_t b, int c) { S::g_base = base; auto ps = mk_tainted<VS24*, S>(p);
  tainted<VS24, S> t; t.a = a; t.b = mk_tainted<int*, S>(b); t.c = c; *ps = t; }
K void k_load_struct(uint64_t base, uint64_t p) { S::g_base = base; auto ps = mk_tainted<VS24*, S>(p); tainted<VS24, S> t = *ps;
  env_log(1, (uint64_t)t.a.UNSAFE_unverified(), raw_bits(t.b), (uint64_t)(int64_t)t.c.UNSAFE_unverified()); }
K void k_store_field_b(uint64_t base, uint64_t p, uint64_t b) { S::g_base = base; auto t = mk_tainted<VS24*, S>(p); t->b = mk_tainted<int*, S>(b); }
K uint64_t k_load_field_b(uint64_t base, uint64_t p) { S::g_base = base; auto t = mk_tainted<VS24*, S>(p); tainted<int*, S> x = t->b; return raw_bits(x); }
K void k_store_ptrarr2(uint64_t base, uint64_t p, uint64_t a, uint64_t b) { S::g_base = base; auto t = mk_tainted<int*(*)[2], S>(p);
  (*t)[0] = mk_tainted<int*, S>(a); (*t)[1] = mk_tainted<int*, S>(b); }
'''


def check_agg(ctx, k, log=32):
    base = ctx.sandbox_base(log)
    size = 1 << log
    p = ctx.sym("p", 64)
    mem0 = ctx.eng.initial_memory()
    x = ctx.sym("x_any", 64)
    b0 = 0x300000000

    def fit(n):
        ctx.assume(z3.UGE(p, base), z3.ULE(p - base, BV(size - n, 64)))

    def unchanged(q, lo, n):
        return z3.Implies(z3.Or(z3.ULT(x, lo), z3.UGE(x - lo, BV(n, 64))), z3.Select(q.mem, x) == z3.Select(mem0, x))
    if k in ("k_store_arr_int3", "k_store_arr_long3"):
        w = 32 if "int3" in k else 64
        fit(12)
        vs = [ctx.sym("v%d" % i, w) for i in range(3)]
        paths = ctx.run(k, [base, p] + vs)
        fits = z3.And(*[z3.And(sext(v, 128) >= -(1 << 31), sext(v, 128) < (1 << 31)) for v in vs])
        for q in paths:
            if q.status == "ret":
                ctx.require(q, z3.And(*[sext(decode(q.mem, p + BV(4 * i, 64), 4), 128) == sext(vs[i], 128) for i in range(3)]),
                            "array elements stored at guest stride with guest width")
                ctx.require(q, unchanged(q, p, 12), "nothing outside the 12 guest bytes of the array changes")
            elif q.status == "abort":
                ctx.require(q, z3.Not(fits), "aborts only when an element does not fit")
        ctx.only(paths, "ret", "abort")
        ctx.expect(paths, ret=1)
        ctx.validate(k, [[b0, b0 + size - 12, 1, 0xFFFFFFFF if w == 32 else (1 << 64) - 1, 3], [b0, b0 + 0x40, 7, 8, 9]], base=b0)
    elif k == "k_store_arr_llong3":
        fit(24)
        vs = [ctx.sym("v%d" % i, 64) for i in range(3)]
        paths = ctx.run(k, [base, p] + vs)
        for q in paths:
            if q.status == "ret":
                ctx.require(q, z3.And(*[decode(q.mem, p + BV(8 * i, 64), 8) == vs[i] for i in range(3)]), "long long elements are stored at the guest stride 8 with all 64 bits")
                ctx.require(q, unchanged(q, p, 24), "nothing outside the 24 guest bytes of the array changes")
        ctx.only(paths, "ret")
        ctx.expect(paths, ret=1)
        ctx.validate(k, [[b0, b0 + size - 24, 1, (1 << 40) + 7, (1 << 64) - 5]], base=b0)
    elif k == "k_load_arr_llong3":
        fit(24)
        paths = ctx.run(k, [base, p])
        for q in paths:
            if q.status == "ret":
                lg = q.user["log"][0]
                ctx.require(q, z3.And(*[lg[1 + i] == decode(mem0, p + BV(8 * i, 64), 8) for i in range(3)]), "long long elements are loaded at the guest stride 8 with all 64 bits")
                ctx.require(q, footprint_ok(ctx, q, p, 24, LD), "reads stay inside the 24 guest bytes")
        ctx.only(paths, "ret")
        ctx.expect(paths, ret=1)
        ctx.validate(k, [[b0, b0 + size - 24]], mem={b0 + size - 24 + i: (0x91 + 7 * i) & 0xFF for i in range(24)}, base=b0)
    elif k == "k_store_elem_llong":
        fit(24)
        i = ctx.sym("i", 32)
        v = ctx.sym("v", 64)
        ctx.assume(z3.ULT(i, 3))
        paths = ctx.run(k, [base, p, i, v])
        for q in paths:
            if q.status == "ret":
                lo = p + zext(i, 64) * 8
                ctx.require(q, z3.And(decode(q.mem, lo, 8) == v, unchanged(q, lo, 8)), "writing one long long element changes exactly its 8 guest bytes")
        ctx.only(paths, "ret")
        ctx.expect(paths, ret=1)
        ctx.validate(k, [[b0, b0 + 0x40, j, 0x123456789ABCDEF0] for j in range(3)], base=b0)
    elif k == "k_store_arr_long22":
        fit(16)
        vs = [ctx.sym("v%d" % i, 64) for i in range(4)]
        paths = ctx.run(k, [base, p] + vs)
        fits = z3.And(*[z3.And(sext(v, 128) >= -(1 << 31), sext(v, 128) < (1 << 31)) for v in vs])
        for q in paths:
            if q.status == "ret":
                ctx.require(q, z3.And(*[sext(decode(q.mem, p + BV(4 * i, 64), 4), 128) == sext(vs[i], 128) for i in range(4)]),
                            "two-dimensional array elements stored row-major at guest stride")
                ctx.require(q, unchanged(q, p, 16), "nothing outside the 16 guest bytes of the array changes")
            elif q.status == "abort":
                ctx.require(q, z3.Not(fits), "aborts only when an element does not fit")
        ctx.only(paths, "ret", "abort")
        ctx.expect(paths, ret=1)
        ctx.validate(k, [[b0, b0 + size - 16, 1, 2, 3, 4]], base=b0)
    elif k == "k_load_arr_long22":
        fit(16)
        paths = ctx.run(k, [base, p])
        for q in paths:
            if q.status == "ret":
                l1 = [e for e in q.user["log"] if e[0] == 1][0]
                l2 = [e for e in q.user["log"] if e[0] == 2][0]
                got = [l1[1], l1[2], l2[1], l2[2]]
                ctx.require(q, z3.And(*[got[i] == sext(decode(mem0, p + BV(4 * i, 64), 4), 64) for i in range(4)]),
                            "two-dimensional array elements loaded row-major at guest stride")
                ctx.require(q, footprint_ok(ctx, q, p, 16, LD), "reads stay inside the 16 guest bytes")
                if [e for e in q.events if e[0] == "app-oob"]:
                    ctx.fail(q, "application copy overrun")
        ctx.only(paths, "ret")
        ctx.expect(paths, ret=1)
        ctx.validate(k, [[b0, b0 + size - 16]], mem={b0 + size - 16 + i: (0x91 + 7 * i) & 0xFF for i in range(16)}, base=b0)
    elif k == "k_load_arr_long3":
        fit(12)
        paths = ctx.run(k, [base, p])
        for q in paths:
            if q.status == "ret":
                lg = q.user["log"][0]
                ctx.require(q, z3.And(*[lg[1 + i] == sext(decode(mem0, p + BV(4 * i, 64), 4), 64) for i in range(3)]),
                            "array elements loaded at guest stride and sign-extended from guest width")
                ctx.require(q, footprint_ok(ctx, q, p, 12, LD), "reads stay inside the 12 guest bytes")
        ctx.only(paths, "ret")
        ctx.expect(paths, ret=1)
        ctx.validate(k, [[b0, b0 + size - 12]], mem={b0 + size - 12 + i: (0x91 + 7 * i) & 0xFF for i in range(12)}, base=b0)
    elif k == "k_store_elem_long":
        fit(12)
        i = ctx.sym("i", 32)
        v = ctx.sym("v", 64)
        ctx.assume(z3.ULT(i, 3), sext(v, 128) >= -(1 << 31), sext(v, 128) < (1 << 31))
        paths = ctx.run(k, [base, p, i, v])
        for q in paths:
            if q.status == "ret":
                lo = p + zext(i, 64) * 4
                ctx.require(q, z3.And(decode(q.mem, lo, 4) == z3.Extract(31, 0, v), unchanged(q, lo, 4)),
                            "writing one element changes exactly its 4 guest bytes; neighbours intact")
        ctx.only(paths, "ret")
        ctx.expect(paths, ret=1)
        ctx.validate(k, [[b0, b0 + 0x40, j, 0x12345678] for j in range(3)], base=b0)
    elif k in ("k_store_pidx_long", "k_load_pidx_long"):
        fit(4)
        i = ctx.sym("i", 32)
        ctx.assume(sext(i, 64) >= -3, sext(i, 64) <= 3)
        lo = p + sext(i, 64) * 4
        ctx.assume(z3.UGE(lo, base), z3.ULE(lo - base, BV(size - 4, 64)))        # the designated element lies inside the region
        if k == "k_store_pidx_long":
            v = ctx.sym("v", 64)
            ctx.assume(sext(v, 128) >= -(1 << 31), sext(v, 128) < (1 << 31))
            paths = ctx.run(k, [base, p, i, v])
            for q in paths:
                if q.status == "ret":
                    ctx.require(q, z3.And(decode(q.mem, lo, 4) == z3.Extract(31, 0, v), unchanged(q, lo, 4)),
                                "a store through the reference p[i] (i of either sign) changes exactly the guest bytes of element i")
            ctx.validate(k, [[b0, b0 + 0x40, j & 0xFFFFFFFF, 0x12345678] for j in (-2, -1, 0, 1, 2)], base=b0)
        else:
            paths = ctx.run(k, [base, p, i])
            for q in paths:
                if q.status == "ret":
                    ctx.require(q, q.ret == sext(decode(mem0, lo, 4), 64), "a load through the reference p[i] (i of either sign) decodes the guest bytes of element i")
        ctx.only(paths, "ret")
        ctx.expect(paths, ret=1)
    elif k in ("k_store_field_a", "k_store_field_c"):
        fit(12)
        off = 0 if k.endswith("_a") else 8
        v = ctx.sym("v", 64 if off == 0 else 32)
        if off == 0:
            ctx.assume(sext(v, 128) >= -(1 << 31), sext(v, 128) < (1 << 31))
        paths = ctx.run(k, [base, p, v])
        for q in paths:
            if q.status == "ret":
                lo = p + BV(off, 64)
                ctx.require(q, z3.And(decode(q.mem, lo, 4) == z3.Extract(31, 0, v), unchanged(q, lo, 4)),
                            "a field store changes exactly the field's guest bytes at its guest offset")
        ctx.only(paths, "ret")
        ctx.expect(paths, ret=1)
        ctx.validate(k, [[b0, b0 + size - 12, 0x7FFFFFFF], [b0, b0 + 0x40, 5]], base=b0)
    elif k in ("k_load_field_a", "k_load_field_c"):
        fit(12)
        off = 0 if k.endswith("_a") else 8
        paths = ctx.run(k, [base, p])
        for q in paths:
            if q.status == "ret":
                ctx.require(q, q.ret == sext(decode(mem0, p + BV(off, 64), 4), 64), "a field load decodes the field's 4 guest bytes at its guest offset")
                ctx.require(q, footprint_ok(ctx, q, p + BV(off, 64), 4, LD), "reads only the field's bytes")
        ctx.only(paths, "ret")
        ctx.expect(paths, ret=1)
        ctx.validate(k, [[b0, b0 + size - 12]], mem={b0 + size - 12 + i: (0x85 + 3 * i) & 0xFF for i in range(12)}, base=b0)
    elif k == "k_store_struct":
        fit(12)
        a = ctx.sym("a", 64)
        b = ctx.sym("b", 64)
        c = ctx.sym("c", 32)
        ctx.assume(z3.Or(b == 0, ctx.in_region(b, base, size)))
        fits = z3.And(sext(a, 128) >= -(1 << 31), sext(a, 128) < (1 << 31))
        paths = ctx.run(k, [base, p, a, b, c])
        rep = lambda v: z3.If(v == 0, BV(0, 32), z3.Extract(31, 0, v - base))
        for q in paths:
            if q.status == "ret":
                ctx.require(q, z3.And(fits, decode(q.mem, p, 4) == z3.Extract(31, 0, a), decode(q.mem, p + BV(4, 64), 4) == rep(b), decode(q.mem, p + BV(8, 64), 4) == c),
                            "a whole-struct store writes every field at its guest offset in its guest encoding (pointer field relative to the destination's sandbox)")
                ctx.require(q, unchanged(q, p, 12), "nothing outside the 12 guest bytes of the struct changes")
            elif q.status == "abort":
                ctx.require(q, z3.Not(fits), "aborts only when a field value does not fit its guest type")
        ctx.only(paths, "ret", "abort")
        ctx.expect(paths, ret=1, abort=1)
        ctx.validate(k, [[b0, b0 + size - 12, 7, b0 + 0x1234, 9], [b0, b0 + 0x40, 0x7FFFFFFF, 0, 0xFFFFFFFF]], base=b0)
    elif k == "k_load_struct":
        fit(12)
        paths = ctx.run(k, [base, p])
        for q in paths:
            if q.status == "ret":
                lg = q.user["log"][0]
                rb = decode(mem0, p + BV(4, 64), 4)
                ctx.require(q, z3.And(lg[1] == sext(decode(mem0, p, 4), 64), lg[2] == z3.If(rb == 0, BV(0, 64), base + zext(rb, 64)),
                                      lg[3] == sext(decode(mem0, p + BV(8, 64), 4), 64)),
                            "a whole-struct load decodes every field from its guest offset and encoding")
                ctx.require(q, footprint_ok(ctx, q, p, 12, LD), "reads stay inside the 12 guest bytes of the struct")
        ctx.only(paths, "ret")
        ctx.expect(paths, ret=1)
        ctx.validate(k, [[b0, b0 + size - 12]], mem={b0 + size - 12 + i: (0x85 + 3 * i) & 0xFF for i in range(12)}, base=b0)
    elif k == "k_store_field_b":
        fit(12)
        b = ctx.sym("b", 64)
        ctx.assume(z3.Or(b == 0, ctx.in_region(b, base, size)))
        paths = ctx.run(k, [base, p, b])
        for q in paths:
            if q.status == "ret":
                lo = p + BV(4, 64)
                ctx.require(q, z3.And(decode(q.mem, lo, 4) == z3.If(b == 0, BV(0, 32), z3.Extract(31, 0, b - base)), unchanged(q, lo, 4)),
                            "a pointer-field store changes exactly the field's 4 guest bytes at its guest offset")
        ctx.only(paths, "ret")
        ctx.expect(paths, ret=1)
        ctx.validate(k, [[b0, b0 + size - 12, b0 + 0x77], [b0, b0 + 0x40, 0]], base=b0)
    elif k == "k_load_field_b":
        fit(12)
        paths = ctx.run(k, [base, p])
        for q in paths:
            if q.status == "ret":
                rb = decode(mem0, p + BV(4, 64), 4)
                ctx.require(q, q.ret == z3.If(rb == 0, BV(0, 64), base + zext(rb, 64)), "a pointer-field load decodes the field's 4 guest bytes")
                ctx.require(q, footprint_ok(ctx, q, p + BV(4, 64), 4, LD), "reads only the field's bytes")
        ctx.only(paths, "ret")
        ctx.expect(paths, ret=1)
        ctx.validate(k, [[b0, b0 + size - 12]], mem={b0 + size - 12 + i: (0x85 + 3 * i) & 0xFF for i in range(12)}, base=b0)
    elif k == "k_store_ptrarr2":
        fit(8)
        a = ctx.sym("a", 64)
        b = ctx.sym("b", 64)
        ctx.assume(z3.Or(a == 0, ctx.in_region(a, base, size)), z3.Or(b == 0, ctx.in_region(b, base, size)))
        paths = ctx.run(k, [base, p, a, b])
        rep = lambda v: z3.If(v == 0, BV(0, 32), z3.Extract(31, 0, v - base))
        for q in paths:
            if q.status == "ret":
                ctx.require(q, z3.And(decode(q.mem, p, 4) == rep(a), decode(q.mem, p + BV(4, 64), 4) == rep(b), unchanged(q, p, 8)),
                            "element-wise stores into an array of pointers touch exactly their 4-byte cells")
        ctx.only(paths, "ret")
        ctx.expect(paths, ret=1)
        ctx.validate(k, [[b0, b0 + size - 8, b0 + 5, 0]], base=b0)


def check_bm_struct(ctx, k):
    size = 1 << 32
    b0 = ctx.sandbox_base(32, "b0", aligned=False)
    b1 = ctx.sandbox_base(32, "b1", aligned=False)
    ctx.assume(z3.Or(z3.UGE(b0, b1 + BV(size, 64)), z3.UGE(b1, b0 + BV(size, 64))), z3.Or(z3.UGE(b0 - b1, BV(size, 64)), z3.UGE(b1 - b0, BV(size, 64))))
    p = ctx.sym("p", 64)
    own = [z3.And(z3.UGE(p, bb), z3.ULE(p - bb, BV(size - 12, 64))) for bb in (b0, b1)]
    ctx.assume(z3.Or(*own))
    ob = z3.If(own[0], b0, b1)
    mem0 = ctx.eng.initial_memory()
    x = ctx.sym("x_any", 64)
    if k == "k_bm_store_struct":
        a = ctx.sym("a", 64)
        b = ctx.sym("b", 64)
        c = ctx.sym("c", 32)
        ctx.assume(z3.Or(b == 0, ctx.in_region(b, ob, size)))
        fits = z3.And(sext(a, 128) >= -(1 << 31), sext(a, 128) < (1 << 31))
        paths = ctx.run(k, [b0, b1, p, a, b, c])
        for q in paths:
            if q.status == "ret":
                ctx.require(q, z3.And(fits, decode(q.mem, p, 4) == z3.Extract(31, 0, a), decode(q.mem, p + BV(4, 64), 4) == z3.If(b == 0, BV(0, 32), z3.Extract(31, 0, b - ob)),
                                      decode(q.mem, p + BV(8, 64), 4) == c),
                            "every field is written at its guest offset; the pointer field is encoded relative to the sandbox that owns the destination")
                ctx.require(q, z3.Implies(z3.Or(z3.ULT(x, p), z3.UGE(x - p, BV(12, 64))), z3.Select(q.mem, x) == z3.Select(mem0, x)), "nothing outside the struct's 12 guest bytes changes")
            elif q.status == "abort":
                ctx.require(q, z3.Not(fits), "aborts only when a field value does not fit its guest type")
        ctx.only(paths, "ret", "abort")
        ctx.expect(paths, ret=1, abort=1)
    else:
        paths = ctx.run(k, [b0, b1, p])
        for q in paths:
            if q.status == "ret":
                lg = q.user["log"][0]
                rb = decode(mem0, p + BV(4, 64), 4)
                ctx.require(q, z3.And(lg[1] == sext(decode(mem0, p, 4), 64), lg[2] == z3.If(rb == 0, BV(0, 64), ob + zext(rb, 64)), lg[3] == sext(decode(mem0, p + BV(8, 64), 4), 64)),
                            "every field is decoded from its guest offset; the pointer field relative to the sandbox that owns the source")
        ctx.only(paths, "ret")
        ctx.expect(paths, ret=1)


FN_TAG, FN_XOR = 0x7F0000000000, 0xA5000000


def check_bm2(ctx, k):
    size = 1 << 32
    b0 = ctx.sandbox_base(32, "b0", aligned=False)
    mem0 = ctx.eng.initial_memory()
    x = ctx.sym("x_any", 64)
    rep = lambda v, ob: z3.If(v == 0, BV(0, 32), z3.Extract(31, 0, v - ob))
    if k in ("k_bm_store_nested", "k_bm_load_nested"):
        b1 = ctx.sandbox_base(32, "b1", aligned=False)
        ctx.assume(z3.Or(z3.UGE(b0, b1 + BV(size, 64)), z3.UGE(b1, b0 + BV(size, 64))), z3.Or(z3.UGE(b0 - b1, BV(size, 64)), z3.UGE(b1 - b0, BV(size, 64))))
        p = ctx.sym("p", 64)
        own = [z3.And(z3.UGE(p, bb), z3.ULE(p - bb, BV(size - 16, 64))) for bb in (b0, b1)]
        ctx.assume(z3.Or(*own))
        ob = z3.If(own[0], b0, b1)
        cell = lambda mem, off: decode(mem, p + BV(off, 64), 4)
        if k == "k_bm_store_nested":
            kk = ctx.sym("k", 32)
            ip = ctx.sym("ip", 64)
            ia = ctx.sym("ia", 64)
            qq = ctx.sym("q", 64)
            ctx.assume(z3.Or(ip == 0, ctx.in_region(ip, ob, size)), z3.Or(qq == 0, ctx.in_region(qq, ob, size)))
            fits = z3.And(sext(ia, 128) >= -(1 << 31), sext(ia, 128) < (1 << 31))
            paths = ctx.run(k, [b0, b1, p, kk, ip, ia, qq])
            for q in paths:
                if q.status == "ret":
                    ctx.require(q, z3.And(fits, cell(q.mem, 0) == kk, cell(q.mem, 4) == rep(ip, ob), cell(q.mem, 8) == z3.Extract(31, 0, ia), cell(q.mem, 12) == rep(qq, ob)),
                                "a whole-struct store writes the fields of a nested struct too, its pointer field encoded relative to the sandbox that owns the destination")
                    ctx.require(q, z3.Implies(z3.Or(z3.ULT(x, p), z3.UGE(x - p, BV(16, 64))), z3.Select(q.mem, x) == z3.Select(mem0, x)), "nothing outside the 16 guest bytes changes")
                elif q.status == "abort":
                    ctx.require(q, z3.Not(fits), "aborts only when a field value does not fit its guest type")
            ctx.only(paths, "ret", "abort")
            ctx.expect(paths, ret=1, abort=1)
        else:
            paths = ctx.run(k, [b0, b1, p])
            dat = lambda r: z3.If(r == 0, BV(0, 64), ob + zext(r, 64))
            for q in paths:
                if q.status == "ret":
                    l1 = [e for e in q.user["log"] if e[0] == 1][0]
                    l2 = [e for e in q.user["log"] if e[0] == 2][0]
                    ctx.require(q, z3.And(l1[1] == sext(cell(mem0, 0), 64), l1[2] == dat(cell(mem0, 4)), l1[3] == sext(cell(mem0, 8), 64), l2[1] == dat(cell(mem0, 12))),
                                "a whole-struct load decodes the nested struct's fields, its pointer field relative to the sandbox that owns the source")
            ctx.only(paths, "ret")
            ctx.expect(paths, ret=1)
    elif k == "k_bm_store_fnptr":
        cellp = ctx.sym("cell", 64)
        ctx.assume(z3.UGE(cellp, b0), z3.ULE(cellp - b0, BV(size - 4, 64)))
        fr = ctx.sym("frep", 32)
        f = z3.If(fr == 0, BV(0, 64), BV(FN_TAG, 64) | zext(fr ^ BV(FN_XOR, 32), 64))
        paths = ctx.run(k, [b0, cellp, f])
        for q in paths:
            if q.status == "ret":
                ctx.require(q, decode(q.mem, cellp, 4) == fr, "a function pointer stored into sandbox memory is written as the backend's function representation")
        ctx.only(paths, "ret")
        ctx.expect(paths, ret=1)
    else:
        p = ctx.sym("p", 64)
        ctx.assume(z3.Or(p == 0, ctx.in_region(p, b0, size)))
        paths = ctx.run(k, [b0, p])
        for q in paths:
            if q.status == "ret":
                fr = [e for e in (q.user.get("log") or []) if e[0] == 0x204]
                bvx = lambda v: v if not isinstance(v, int) else BV(v, 64)
                ctx.require(q, z3.And(q.ret == zext(rep(p, b0), 64), z3.BoolVal(len(fr) == 1), bvx(fr[0][2]) == zext(rep(p, b0), 64)) if fr else z3.BoolVal(False),
                            "a pointer to a function-pointer slot is converted as a data pointer (offset from the base) with sandbox context, for UNSAFE_sandboxed and free")
        ctx.only(paths, "ret")
        ctx.expect(paths, ret=1)


NOOP_SRC = r'''
#include "verif_env.hpp"
#define RLBOX_USE_STATIC_CALLS() rlbox_noop_sandbox_lookup_symbol
#include "rlbox.hpp"
#include "rlbox_noop_sandbox.hpp"
#include "verif_util.hpp"
using namespace rlbox;
using NS = rlbox_noop_sandbox;
// sandbox-to-sandbox assignment of an array of pointers on a backend whose guest pointer type is a real pointer
K void k_noop_copy_ptrarr(uint64_t dst, uint64_t src) { auto d = mk_tainted<int*(*)[3], NS>(dst); auto s = mk_tainted<int*(*)[3], NS>(src); *d = *s; }
K void k_noop_copy_intarr(uint64_t dst, uint64_t src) { auto d = mk_tainted<long(*)[3], NS>(dst); auto s = mk_tainted<long(*)[3], NS>(src); *d = *s; }
K void k_noop_copy_int43(uint64_t dst, uint64_t src) { auto s = mk_tainted<int(*)[4][3], NS>(src); tainted<int[4][3], NS> v = *s; std::memcpy((void*)dst, &v, sizeof(v)); static_assert(sizeof(v) == 48); }
K void k_noop_store_ptrarr(uint64_t dst, uint64_t a, uint64_t b, uint64_t c) { auto d = mk_tainted<int*(*)[3], NS>(dst);
  tainted<int*[3], NS> t; uint64_t v[3] = { a, b, c }; std::memcpy(&t, v, 24); *d = t; }
'''


def check_noop(ctx, k):
    n = 48 if k == "k_noop_copy_int43" else 24
    dst = ctx.buffer(n, name="dst")
    if k == "k_noop_store_ptrarr":
        vs = [ctx.sym("v%d" % i, 64) for i in range(3)]
        paths = ctx.run(k, [dst] + vs)
        want = []
        for v in vs:
            want += [z3.Extract(8 * j + 7, 8 * j, v) for j in range(8)]
    else:
        src = ctx.buffer(n, name="src")
        paths = ctx.run(k, [dst, src])
        want = src.init
    for q in paths:
        if q.status == "ret":
            ctx.require(q, z3.And(*[ctx.eng.cbyte(q, dst.addr + i) == want[i] for i in range(n)]),
                        "every byte of every element of the array object is written with the source's encoding")
            oob = [e for e in q.events if e[0] == "app-oob"]
            if oob:
                ctx.fail(q, "access outside the array objects %r" % (oob[0],))
    ctx.only(paths, "ret")
    ctx.expect(paths, ret=1)


AGG = ["k_store_pidx_long", "k_load_pidx_long", "k_store_arr_llong3", "k_load_arr_llong3", "k_store_elem_llong", "k_store_arr_int3", "k_store_arr_long3", "k_store_arr_long22", "k_load_arr_long22", "k_load_arr_long3", "k_store_elem_long", "k_store_field_a", "k_store_field_c",
       "k_load_field_a", "k_load_field_c", "k_store_ptrarr2", "k_store_struct", "k_load_struct", "k_store_field_b", "k_load_field_b"]


def const_src(t):
    """loads through a pointer to const (stores do not compile, rightly)"""
    T = t.cxx
    return ["K uint64_t k_loadu_%s(uint64_t base, uint64_t p) { S::g_base = base; auto t = mk_tainted<%s*, S>(p); auto x = t->UNSAFE_unverified(); return (uint64_t)x; }" % (t.tag, T),
            "K uint64_t k_cav_%s(uint64_t base, uint64_t p) { S::g_base = base; auto t = mk_tainted<%s*, S>(p); using TT = std::remove_cv_t<%s>; "
            "auto x = t.copy_and_verify([](std::unique_ptr<%s> v) { return v ? *v : TT{}; }); return (uint64_t)x; }" % (t.tag, T, T, T)]


CONST_TYPES = [TY("cllong", "const long long", 64, 64, True), TY("cullong", "const unsigned long long", 64, 64, False), TY("clong", "const long", 64, 32, True),
               TY("cshort", "const short", 16, 16, True), TY("cuint", "const unsigned int", 32, 32, False)]


def jobs(tier, seed):
    out = []
    csrc = [C.PRELUDE, "using S = B32;", HEAD]
    cchk = []
    for t in CONST_TYPES:
        csrc += const_src(t)
        for f in ("loadu", "cav"):     # tainted<const T> cannot be initialised from *p on this tree (does not compile)
            cchk.append(dict(name="B32 %s %s" % (f, t.tag), fn=check_load, kw=dict(t=t, log=32, form=f)))
    out.append(Job("C07_B32_const", "\n".join(csrc) + "\n", cchk))
    backends = [("B32", 32, 4)] + ([("B16", 16, 2)] if tier == "thorough" else [])
    for sbx, log, pb in backends:
        tys = types(pb)
        for gi, grp in enumerate(C.chunks(tys, 10)):
            src = [C.PRELUDE, "using S = %s;" % sbx, HEAD]
            chks = []
            for t in grp:
                src += scalar_src(t)
                chks.append(dict(name="%s store %s" % (sbx, t.tag), fn=check_store, kw=dict(t=t, log=log)))
                forms = ["load", "loadu"] + (["cav"] if t.kind != "ptr" else [])
                for f in forms:
                    chks.append(dict(name="%s %s %s" % (sbx, f, t.tag), fn=check_load, kw=dict(t=t, log=log, form=f)))
                if t.kind == "int" and (tier == "thorough" or t.tag in ("long", "ulong", "short", "uchar", "llong")):
                    chks.append(dict(name="%s range %s" % (sbx, t.tag), fn=check_range, kw=dict(t=t, log=log, nmax=4 if tier == "thorough" else 3)))
            out.append(Job("C07_%s_%d" % (sbx, gi), "\n".join(src) + "\n", chks))
    out.append(Job("C07_noop", NOOP_SRC, [dict(name="noop " + k, fn=check_noop, kw=dict(k=k))
                                          for k in ("k_noop_copy_ptrarr", "k_noop_copy_intarr", "k_noop_store_ptrarr", "k_noop_copy_int43")]))
    out.append(Job("C07_BM_struct", '#include "C07_bm.inc"\n', [dict(name="BM " + k, fn=check_bm_struct, kw=dict(k=k)) for k in ("k_bm_store_struct", "k_bm_load_struct")], native=False))
    from specs import C04
    out.append(Job("C07_BM_hist", '#include "C04_bm.inc"\n', [dict(name="BM pointer cell store/load after create/destroy histories", fn=C04.check_bm, kw=dict(k="k_bm_store_load"))], unwind=200, native=False))
    out.append(Job("C07_BM_more", '#include "C07_bm2.inc"\n', [dict(name="BM " + k, fn=check_bm2, kw=dict(k=k)) for k in ("k_bm_store_nested", "k_bm_load_nested", "k_bm_store_fnptr", "k_bm_ctx_fnptrptr")], native=False))
    out.append(Job("C07_agg", C.PRELUDE + "using S = B32;\n" + AGG_SRC, [dict(name="B32 " + k, fn=check_agg, kw=dict(k=k)) for k in AGG]))
    return out
