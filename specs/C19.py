"""C19 - transition notifications bracket every boundary crossing and stay balanced."""
import z3
from specs.common import *  # noqa: F401,F403
from specs import common as C
import symex

META = {
    "level": "model_checking",
    "bounds": {"quick": "foreign-ABI backend with transition hooks, transition timing and RLBOX_USE_EXCEPTIONS: 4 call trees (plain invocation; one callback; two "
                        "callbacks; callback that performs a nested invocation with a further callback, followed by a second callback) with symbolic faults "
                        "at every argument conversion, callback body and result conversion position (the solver chooses which abort)",
               "thorough": "same"},
    "outside": "depth > 3, width > 2; hooks that themselves throw",
    "assumptions": ["the clock is a stub returning arbitrary values; exceptions are modelled by Itanium-style unwinding through invoke/landingpad/resume"],
}
INVOKE, CALLBACK = 0, 1


def conc(v):
    """concrete value of a logged field; a field that is not determined by the inputs (e.g. an uninitialised slot handed to a
    hook) is returned as a descriptive string, which compares unequal to every expected value"""
    if isinstance(v, int):
        return v
    s = symex.simp(v)
    return s.as_long() if z3.is_bv_value(s) else "undetermined(%s)" % str(s)[:60]


def hx(v):
    return hex(v) if isinstance(v, int) else str(v)


def install_exc(eng):
    def alloc_exc(e, st, args, ins):
        a = e.malloc(st, conc(args[0]) + 64)
        return [(st, BV(a, 64))]

    def cxa_throw(e, st, args, ins):
        st.exc = conc(args[0])
        st.user["inflight"] = st.user.get("inflight", 0) + 1
        st.user["throwing"] = True
        st.events.append(("throw",))
        return [(st, None)]
    noop = lambda e, st, args, ins: [(st, None)]
    eng.stubs["__cxa_allocate_exception"] = alloc_exc
    eng.stubs["__cxa_throw"] = cxa_throw
    def begin_catch(e, st, args, ins):
        st.user["inflight"] = max(0, st.user.get("inflight", 0) - 1)     # the exception is caught: no longer "uncaught"
        return [(st, args[0])]
    eng.stubs["__cxa_begin_catch"] = begin_catch
    # std::uncaught_exceptions(): exceptions thrown and not yet caught (1 while cleanup pads run during unwinding)
    eng.stubs["_ZSt19uncaught_exceptionsv"] = lambda e, st, args, ins: [(st, BV(st.user.get("inflight", 0), 32))]
    eng.stubs["_ZSt18uncaught_exceptionv"] = lambda e, st, args, ins: [(st, BV(1 if st.user.get("inflight", 0) else 0, 8))]
    for nm in ("__cxa_end_catch", "__cxa_free_exception", "_ZNSt13runtime_errorC1EPKc", "_ZNSt13runtime_errorD1Ev", "__cxa_rethrow"):
        eng.stubs[nm] = noop
    eng.stubs["_ZNSt6chrono3_V212system_clock3nowEv"] = lambda e, st, args, ins: [(st, e.fresh("clk", 64))]
    eng.stubs["_ZNSt6chrono3_V212steady_clock3nowEv"] = lambda e, st, args, ins: [(st, e.fresh("clk", 64))]


def well_nested(seq, state):
    """seq: list of (dir, kind, ident, st) with dir in {'in','out'}. Returns (ok, reason, crossings)"""
    stack = []
    crossings = []
    for d, kind, ident, s in seq:
        if s != state:
            return False, "notification carries transition state %s, expected %s" % (hx(s), hx(state)), crossings
        if d == "in" and kind == INVOKE:
            stack.append(("inv", ident))
            crossings.append((INVOKE, ident))
        elif d == "out" and kind == INVOKE:
            if not stack or stack[-1] != ("inv", ident):
                return False, "'out' for invocation %s does not match the innermost open crossing %s" % (hx(ident), stack[-1:] or "none"), crossings
            stack.pop()
        elif d == "out" and kind == CALLBACK:
            if not stack or stack[-1][0] != "inv":
                return False, "callback 'out' outside of an invocation", crossings
            stack.append(("cb", ident))
            crossings.append((CALLBACK, ident))
        elif d == "in" and kind == CALLBACK:
            if not stack or stack[-1] != ("cb", ident):
                return False, "'in' for callback %s does not match the innermost open crossing %s" % (hx(ident), stack[-1:] or "none"), crossings
            stack.pop()
        else:
            return False, "unknown notification", crossings
    if stack:
        return False, "crossings left open at the end: %s" % stack, crossings
    return True, "", crossings


def check_tree(ctx):
    install_exc(ctx.eng)
    b0 = ctx.sandbox_base(32, "b0", aligned=False)
    shape = ctx.sym("shape", 32)
    x = ctx.sym("x", 64)
    ctx.assume(z3.ULE(shape, 3))
    paths = ctx.run("k_tree", [b0, shape, x])
    kinds = set()
    for q in paths:
        if q.status != "ret":
            ctx.fail(q, "the call tree ended %s (%s): an abort must surface as a catchable exception" % (q.status, q.info))
            continue
        r, m = ctx.eng.check_sat(q.pc)
        lg = q.user.get("log") or []
        mark = [e for e in lg if e[0] == 24][0]
        state = conc(mark[1])
        seq = [("in" if e[0] == 50 else "out", conc(e[1]), conc(e[2]), conc(e[3])) for e in lg if e[0] in (50, 51)]
        ok, why, crossings = well_nested(seq, state)
        done = [e for e in lg if e[0] == 60]
        exceptional = bool(done) and conc(done[0][1]) == 1
        kinds.add((mval(m, shape), exceptional))
        ctx.obligations += 1
        bad = None
        if not ok:
            bad = why
        else:
            n = [e for e in lg if e[0] == 61]
            recs = [(conc(e[1]), conc(e[2])) for e in lg if e[0] == 62]
            if not n or conc(n[0][1]) != len(crossings):
                bad = "%d timing records for %d crossings" % (conc(n[0][1]) if n else -1, len(crossings))
            elif sorted(recs) != sorted(crossings):
                bad = "timing records %s do not match the crossings %s" % (recs, crossings)
            # identity of the invoked function
            first_inv = [c for c in crossings if c[0] == INVOKE]
            want = conc(mark[2]) if mval(m, shape) == 0 else conc(mark[3])
            if not bad and first_inv and first_inv[0][1] != want:
                bad = "the invocation is announced with function identity %s, expected %s" % (hx(first_inv[0][1]), hx(want))
        if bad:
            ctx.report(q, {"check": ctx.name, "kernel": "k_tree", "violated": bad, "inputs": {"shape": mval(m, shape), "x": hex(mval(m, x)), "exceptional": exceptional},
                                   "outcome": q.status, "log": [str(s) for s in seq][:12], "replayed": None})
        else:
            ctx.discharged += 1
    ctx.expect(paths, ret=8)
    ctx.validate_paths(paths, 12)
    for sh in range(4):
        if (sh, True) not in kinds or (sh, False) not in kinds:
            ctx.inconclusive.append("shape %d: did not see both a normal and an exceptional ending (%s)" % (sh, sorted(kinds)))


def check_wide(ctx):
    """a callback argument that does not fit the application type: the refusal sits between the callback's 'out' and 'in'"""
    install_exc(ctx.eng)
    b0 = ctx.sandbox_base(32, "b0", aligned=False)
    x = ctx.sym("x", 32)
    paths = ctx.run("k_wide", [b0, x])
    seen = set()
    for q in paths:
        if q.status != "ret":
            ctx.fail(q, "the invocation ended %s (%s): a refused callback argument must surface as a catchable exception" % (q.status, q.info))
            continue
        lg = q.user.get("log") or []
        mark = [e for e in lg if e[0] == 24][0]
        seq = [("in" if e[0] == 50 else "out", conc(e[1]), conc(e[2]), conc(e[3])) for e in lg if e[0] in (50, 51)]
        ok, why, crossings = well_nested(seq, conc(mark[1]))
        done = [e for e in lg if e[0] == 60]
        exceptional = bool(done) and conc(done[0][1]) == 1
        body = any(e[0] == 20 for e in lg)
        seen.add((exceptional, body))
        n = [e for e in lg if e[0] == 61]
        recs = [(conc(e[1]), conc(e[2])) for e in lg if e[0] == 62]
        ctx.require(q, z3.BoolVal(ok), "notifications are properly nested (%s): %s" % (why, seq))
        ctx.require(q, z3.BoolVal(len(crossings) == 2 and crossings[0] == (INVOKE, conc(mark[2]))), "one invocation of g_w and one callback crossing are announced: %s" % (crossings,))
        ctx.require(q, z3.BoolVal(bool(n) and conc(n[0][1]) == len(crossings) and sorted(recs) == sorted(crossings)),
                    "exactly one timing record per crossing (%s for %s)" % (recs, crossings))
    ctx.expect(paths, ret=2)
    if (True, False) not in seen or (False, True) not in seen:
        ctx.inconclusive.append("did not see both the refused argument (exception before the callback body) and the normal run: %s" % sorted(seen))
    ctx.validate_paths(paths, 8)


def check_single_hook(ctx, which):
    """only one of the two hooks is defined: every crossing must still produce exactly one notification of that kind"""
    install_exc(ctx.eng)
    b0 = ctx.sandbox_base(32, "b0", aligned=False)
    shape = ctx.sym("shape", 32)
    x = ctx.sym("x", 64)
    ctx.assume(z3.ULE(shape, 3))
    paths = ctx.run("k_tree", [b0, shape, x])
    tag = 51 if which == "out" else 50
    for q in paths:
        if q.status != "ret":
            ctx.fail(q, "ended %s (%s)" % (q.status, q.info))
            continue
        lg = q.user.get("log") or []
        entered = len([e for e in lg if e[0] == 28])
        bodies = len([e for e in lg if e[0] == 20])
        notes = [(conc(e[1])) for e in lg if e[0] == tag]
        other = [e for e in lg if e[0] == (50 if which == "out" else 51)]
        ninv = len([k for k in notes if k == INVOKE])
        ncb = len([k for k in notes if k == CALLBACK])
        r, m = ctx.eng.check_sat(q.pc)
        ctx.require(q, z3.BoolVal(ninv == entered and ncb == bodies and not other),
                    "with only the '%s' hook defined: %d invocations entered and %d callbacks run, but %d invocation and %d callback '%s' notifications"
                    % (which, entered, bodies, ninv, ncb, which))
    ctx.expect(paths, ret=8)


def check_noop_tree(ctx):
    install_exc(ctx.eng)
    x = ctx.sym("x", 32)
    paths = ctx.run("k_noop_tree", [x])
    for q in paths:
        if q.status != "ret":
            ctx.fail(q, "ended %s %s" % (q.status, q.info))
            continue
        lg = q.user.get("log") or []
        mark = [e for e in lg if e[0] == 24][0]
        A, B = conc(mark[1]), conc(mark[2])
        seq = [("in" if e[0] == 50 else "out", conc(e[1]), conc(e[3])) for e in lg if e[0] in (50, 51)]
        want = [("in", INVOKE, A), ("out", CALLBACK, A), ("in", INVOKE, B), ("out", CALLBACK, B), ("in", CALLBACK, B), ("out", INVOKE, B),
                ("in", CALLBACK, A), ("out", CALLBACK, A), ("in", CALLBACK, A), ("out", INVOKE, A)]
        n = [e for e in lg if e[0] == 61]
        ctx.require(q, z3.BoolVal(seq == want and bool(n) and conc(n[0][1]) == 3 and conc(n[0][2]) == 2),
                    "every notification carries the transition state of the sandbox whose boundary is crossed, properly nested; one timing record per "
                    "crossing filed with that sandbox (got %s, records %s)" % (seq, [conc(v) for v in n[0][1:3]] if n else None))
    ctx.only(paths, "ret")
    ctx.expect(paths, ret=1)


def check_two_tree(ctx):
    install_exc(ctx.eng)
    ctx.eng.max_strlen = 64
    x = ctx.sym("x", 32)
    paths = ctx.run("k_two_tree", [x])
    kinds = set()
    for q in paths:
        if q.status != "ret":
            ctx.fail(q, "ended %s %s" % (q.status, q.info))
            continue
        lg = q.user.get("log") or []
        mark = [e for e in lg if e[0] == 24][0]
        sbs = [e for e in lg if e[0] == 25][0]
        A, B = conc(mark[1]), conc(mark[2])
        SA, SB = conc(sbs[1]), conc(sbs[2])
        kinds.add(bool([e for e in lg if e[0] == 63]))
        seq = [("in" if e[0] == 50 else "out", conc(e[1]), conc(e[3])) for e in lg if e[0] in (50, 51)]
        want = [("in", INVOKE, A), ("out", CALLBACK, A), ("in", INVOKE, B), ("out", CALLBACK, B), ("in", CALLBACK, B), ("out", INVOKE, B),
                ("in", CALLBACK, A), ("out", CALLBACK, A), ("in", CALLBACK, A), ("out", INVOKE, A)]
        bodies = [(conc(e[1]), conc(e[2])) for e in lg if e[0] == 20]
        n = [e for e in lg if e[0] == 61]
        ctx.require(q, z3.BoolVal(seq == want and bodies == [(50, SA), (8, SB), (1, SA)] and bool(n) and conc(n[0][1]) == 3 and conc(n[0][2]) == 2),
                    "every notification carries the state of the sandbox whose boundary is crossed and every callback sees its own sandbox, also after a "
                    "nested visit of another sandbox ended by an abort that the application caught; one timing record per crossing, filed with that sandbox "
                    "(got %s, bodies %s, records %s)" % (seq, bodies, [conc(v) for v in n[0][1:3]] if n else None))
    if kinds != {True, False}:
        ctx.inconclusive.append("two-sandbox tree: did not see both the normal and the faulting nested visit")
    ctx.only(paths, "ret")
    ctx.expect(paths, ret=2)


def check_void_invoke(ctx):
    install_exc(ctx.eng)
    ctx.eng.max_strlen = 64
    w = ctx.sym("with_cb", 32)
    x = ctx.sym("x", 32)
    ctx.assume(z3.ULE(w, 1))
    paths = ctx.run("k_void_invoke", [w, x])
    for q in paths:
        if q.status != "ret":
            ctx.fail(q, "ended %s %s" % (q.status, q.info))
            continue
        r, m = ctx.eng.check_sat(q.pc)
        wc = mval(m, w)
        lg = q.user.get("log") or []
        A = conc([e for e in lg if e[0] == 24][0][1])
        seq = [("in" if e[0] == 50 else "out", conc(e[1]), conc(e[3])) for e in lg if e[0] in (50, 51)]
        want = [("in", INVOKE, A), ("out", CALLBACK, A), ("in", CALLBACK, A), ("out", INVOKE, A)] if wc else [("in", INVOKE, A), ("out", INVOKE, A)]
        n = [e for e in lg if e[0] == 61]
        ctx.require(q, z3.BoolVal(seq == want and bool(n) and conc(n[0][1]) == (2 if wc else 1)),
                    "a void sandbox function is bracketed by exactly one 'in' and one 'out' (got %s)" % (seq,))
    ctx.only(paths, "ret")
    ctx.expect(paths, ret=2)


def check_state_change(ctx):
    install_exc(ctx.eng)
    ctx.eng.max_strlen = 64
    x = ctx.sym("x", 32)
    paths = ctx.run("k_state_change", [x])
    kinds = set()
    for q in paths:
        if q.status != "ret":
            ctx.fail(q, "ended %s %s" % (q.status, q.info))
            continue
        lg = q.user.get("log") or []
        mark = [e for e in lg if e[0] == 24][0]
        A, NEW = conc(mark[1]), conc(mark[2])
        kinds.add(bool([e for e in lg if e[0] == 63]))
        seq = [("in" if e[0] == 50 else "out", conc(e[1]), conc(e[3])) for e in lg if e[0] in (50, 51)]
        want = [("in", INVOKE, A), ("out", CALLBACK, A), ("in", CALLBACK, NEW), ("out", INVOKE, NEW)]
        fin = [e for e in lg if e[0] == 26]
        ctx.require(q, z3.BoolVal(seq == want and bool(fin) and conc(fin[0][1]) == NEW),
                    "a transition state replaced during an invocation is the one carried by every later notification, on the normal and on the aborting exit (got %s)" % (seq,))
    if kinds != {True, False}:
        ctx.inconclusive.append("state change: did not see both the normal and the aborting exit")
    ctx.only(paths, "ret")
    ctx.expect(paths, ret=2)


def check_state_recreate(ctx, k="k_state_recreate"):
    install_exc(ctx.eng)
    ctx.eng.max_strlen = 64
    x = ctx.sym("x", 32)
    paths = ctx.run(k, [x])
    for q in paths:
        if q.status != "ret":
            ctx.fail(q, "ended %s %s" % (q.status, q.info))
            continue
        lg = q.user.get("log") or []
        A = conc([e for e in lg if e[0] == 24][0][1])
        seq = [("in" if e[0] == 50 else "out", conc(e[1]), conc(e[3])) for e in lg if e[0] in (50, 51)]
        want = [("in", INVOKE, A), ("out", CALLBACK, A), ("in", CALLBACK, A), ("out", INVOKE, A)]
        fin = [e for e in lg if e[0] == 26]
        ctx.require(q, z3.BoolVal(seq == want and bool(fin) and conc(fin[0][1]) == A),
                    "every notification carries the transition state the embedder installed last (%s; got %s)" % ("cleared to null" if k == "k_state_cleared" else "kept across destroy + create", seq))
    ctx.only(paths, "ret")
    ctx.expect(paths, ret=1)


def jobs(tier, seed):
    from specs.C13 import NOOP, DYLIB
    two = [Job("C19_noop_two", NOOP + '#include "C19_two.inc"\n', [dict(name="noop two sandboxes, nested visit may abort", fn=check_two_tree, unwind=400),
                                                                     dict(name="noop transition state replaced during an invocation", fn=check_state_change, unwind=400),
                                                                     dict(name="noop void sandbox functions", fn=check_void_invoke, unwind=400),
                                                                     dict(name="noop transition state across destroy + create", fn=check_state_recreate, unwind=400),
                                                                     dict(name="noop transition state cleared to null", fn=check_state_recreate, kw=dict(k="k_state_cleared"), unwind=400)], native=False,
               flags=["-D_GLIBCXX_EXTERN_TEMPLATE=0"]),
           Job("C19_dylib_two", DYLIB + '#include "C19_two.inc"\n', [dict(name="dylib two sandboxes, nested visit may abort", fn=check_two_tree, unwind=400)], native=False,
               flags=["-D_GLIBCXX_EXTERN_TEMPLATE=0"])]
    return two + [Job("C19_noop_tree", '#include "C19_noop.inc"\n', [dict(name="noop two-sandbox nested tree", fn=check_noop_tree, unwind=400)], native=False,
                flags=["-D_GLIBCXX_EXTERN_TEMPLATE=0"]),
            Job("C19_only_out", '#define C19_ONLY_OUT\n#include "C19_tree.inc"\n', [dict(name="only the OUT hook defined", fn=check_single_hook, kw=dict(which="out"), unwind=400)],
                native=False, max_paths=100000, flags=["-D_GLIBCXX_EXTERN_TEMPLATE=0"]),
            Job("C19_only_in", '#define C19_ONLY_IN\n#include "C19_tree.inc"\n', [dict(name="only the IN hook defined", fn=check_single_hook, kw=dict(which="in"), unwind=400)],
                native=False, max_paths=100000, flags=["-D_GLIBCXX_EXTERN_TEMPLATE=0"]),
            Job("C19_wide", '#include "C19_wide.inc"\n', [dict(name="callback argument refused at the crossing", fn=check_wide, unwind=400)]),
            Job("C19_tree", '#include "C19_tree.inc"\n', [dict(name="transition call trees", fn=check_tree, unwind=400)], max_paths=100000,
                flags=["-D_GLIBCXX_EXTERN_TEMPLATE=0"])]
