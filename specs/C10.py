"""C10 - bulk memory operations never straddle or leave the sandbox."""
import z3
from specs.common import *  # noqa: F401,F403
from specs import common as C

META = {
    "level": "model_checking",
    "bounds": {
        "quick": "memset (8 size-operand forms), memcpy/memcmp (tainted and raw sources), copy_and_verify_range (count<=6), copy_and_verify_string "
                 "(first NUL within 7 bytes), copy_and_verify_buffer_address, unverified_safe_pointer_because (5 pointee sizes), copy_memory_or_grant_access "
                 "and copy_memory_or_deny_access (3 element sizes, copy path on B32 and grant/deny path on B32G); base, start and extent (all 2^64) symbolic",
        "thorough": "same (the bounds above are the ones needed for unwinding; extents are unbounded)",
    },
    "outside": "element-wise copy loops longer than 6 elements, strings whose first NUL is beyond 7 bytes; a raw (application-side) operand is required "
               "not to straddle or wrap - lying wholly inside the sandbox is tolerated for raw operands, as rlbox documents",
    "assumptions": ["bulk libc/LLVM memory intrinsics with a symbolic length are logged as one range event (dst, src, len) and modelled as a z3 lambda",
                    "application malloc cap 4 KiB: larger requests end the path as alloc-fail, which the property allows"],
}
SIZE = 1 << 32


def Z(v):
    return zext(v, 128)


def inside(base, start, nbytes):
    """[start, start+nbytes) non-empty, start non-null, wholly inside the region (128-bit arithmetic)"""
    return z3.And(start != 0, nbytes >= 1, Z(start) >= Z(base), Z(start) + nbytes <= Z(base) + SIZE)


def not_straddling(base, start, nbytes):
    ins = z3.And(Z(start) >= Z(base), Z(start) + nbytes <= Z(base) + SIZE)
    outs = z3.And(Z(start) + nbytes <= (1 << 64), z3.Or(Z(start) + nbytes <= Z(base), Z(start) >= Z(base) + SIZE))
    return z3.And(start != 0, nbytes >= 1, z3.Or(ins, outs))


def _is_app(a):
    from fw import is_conc, simp
    import symex
    if a is None:
        return True
    a = simp(a) if not isinstance(a, int) else a
    if isinstance(a, int):
        return a >= symex.GLOBAL_BASE and a < (1 << 47) and (a < (1 << 32) or a >= symex.HEAP_BASE)
    if is_conc(a):
        return _is_app(a.as_long())
    return False


def bulk(q, op=None):
    """range events that involve sandbox/raw memory (events between two application objects, e.g. the
    zero-initialisation of the rlbox_sandbox object itself, are not the operation under test)"""
    return [e for e in q.events if e[0] == "bulk" and (op is None or e[1] == op) and not (_is_app(e[2]) and _is_app(e[3]))]


def tptr(ctx, nm, base):
    p = ctx.sym(nm, 64)
    ctx.assume(z3.Or(p == 0, ctx.in_region(p, base, SIZE)))
    return p


B0 = 0x300000000


def check_memset(ctx, k, nt):
    base = ctx.sandbox_base(32)
    p = tptr(ctx, "p", base)
    v = ctx.sym("v", 32)
    n = ctx.sym("n", nt.bits)
    N = ext(n, nt.signed)
    paths = ctx.run(k, [base, p, v, n])
    ok = inside(base, p, N)
    for q in paths:
        ev = bulk(q, "memset")
        if q.status == "ret":
            ctx.require(q, z3.Or(N == 0, ok), "memset proceeds only on a non-null range wholly inside the sandbox")
            ctx.require(q, z3.And(len(ev) == 1, ev[0][2] == p, Z(ev[0][4] if not isinstance(ev[0][4], int) else BV(ev[0][4], 64)) == N) if ev else N == 0,
                        "exactly the designated bytes [p, p+n) are written")
        elif q.status == "abort":
            ctx.require(q, z3.Not(ok), "a non-empty in-sandbox range is carried out, not refused")
            if ev:
                ctx.fail(q, "bytes were written before aborting")
    ctx.only(paths, "ret", "abort")
    ctx.expect(paths, ret=1, abort=1)
    m = (1 << nt.bits) - 1
    ctx.validate(k, [[B0, pp, 0x41, nn & m] for pp in (0, B0, B0 + SIZE - 16, B0 + 0x100) for nn in (0, 1, 16, 17, -1, 0x7F)], base=B0)


def check_memcpy(ctx, k, op, raw_src, nbits=64):
    base = ctx.sandbox_base(32)
    d = tptr(ctx, "d", base)
    s = ctx.sym("s", 64) if raw_src else tptr(ctx, "s", base)
    n = ctx.sym("n", nbits)
    N = Z(n)
    paths = ctx.run(k, [base, d, s, n])
    src_ok = not_straddling(base, s, N) if raw_src else inside(base, s, N)
    ok = z3.And(inside(base, d, N), src_ok)
    for q in paths:
        ev = bulk(q, op)
        if q.status == "ret":
            ctx.require(q, z3.Or(N == 0, ok), "%s proceeds only when the sandbox-side range is wholly inside and the other range does not straddle/wrap" % op)
            if ev:
                ln = ev[0][4] if not isinstance(ev[0][4], int) else BV(ev[0][4], 64)
                ctx.require(q, z3.And(len(ev) == 1, ev[0][2] == d, ev[0][3] == s, Z(ln) == N), "exactly the designated ranges are used")
            else:
                ctx.require(q, N == 0, "operation skipped only for an empty request")
        elif q.status == "abort":
            ctx.require(q, z3.Not(ok), "a valid non-empty request is carried out, not refused")
            if ev:
                ctx.fail(q, "memory touched before aborting")
    ctx.only(paths, "ret", "abort")
    ctx.expect(paths, ret=1, abort=1)


def check_cavr(ctx, tag, asz, gsz):
    base = ctx.sandbox_base(32)
    p = tptr(ctx, "p", base)
    n = ctx.sym("n", 64)
    ctx.assume(z3.ULE(n, 6))
    paths = ctx.run("k_cavr_" + tag, [base, p, n])
    N = Z(n)
    ok = inside(base, p, N * gsz)
    for q in paths:
        rd = [e for e in q.events if e[0] in ("ld", "ld-bulk") and not isinstance(e[1], int)]
        if q.status == "ret":
            ctx.require(q, z3.Or(p == 0, ok), "range copy proceeds only when n guest elements lie wholly inside the sandbox")
            if rd:
                ctx.require(q, z3.And(*[z3.And(Z(e[1]) >= Z(p), Z(e[1]) + e[2] <= Z(p) + N * gsz) for e in rd]), "only bytes of [p, p+n*size_guest) are read")
            if [e for e in q.events if e[0] == "app-oob"]:
                ctx.fail(q, "application buffer overrun")
        elif q.status == "abort":
            ctx.require(q, z3.Not(ok), "a non-empty range that lies inside the sandbox is copied, not refused",
                        known=[("C10-cavr-appsize", z3.And(ok, z3.Not(inside(base, p, N * asz))))])
    ctx.only(paths, "ret", "abort", "alloc-fail")
    ctx.expect(paths, ret=2, abort=1)


def check_cavba(ctx, tag, asz):
    base = ctx.sandbox_base(32)
    p = tptr(ctx, "p", base)
    n = ctx.sym("n", 64)
    paths = ctx.run("k_cavba_" + tag, [base, p, n])
    ok = inside(base, p, Z(n) * asz)
    for q in paths:
        if q.status == "ret":
            ctx.require(q, z3.Or(z3.And(p == 0, q.ret == 0), z3.And(q.ret == p, ok)),
                        "an address is handed back with a count only when that many whole elements lie inside the sandbox (no wrap)")
        elif q.status == "abort":
            ctx.require(q, z3.Not(ok), "a valid request is carried out")
    ctx.only(paths, "ret", "abort")
    ctx.expect(paths, ret=1, abort=1)
    ctx.validate("k_cavba_" + tag, [[B0, pp, nn] for pp in (0, B0, B0 + SIZE - 16) for nn in (0, 1, 16 // asz, 16 // asz + 1, (1 << 64) - 1, (1 << 63) + 2)], base=None)


def check_usp(ctx, tag, asz):
    base = ctx.sandbox_base(32)
    p = tptr(ctx, "p", base)
    n = ctx.sym("n", 64)
    paths = ctx.run("k_usp_" + tag, [base, p, n])
    ok = inside(base, p, Z(n) * asz)
    for q in paths:
        if q.status == "ret":
            ctx.require(q, z3.Or(z3.And(p == 0, q.ret == 0), z3.And(q.ret == p, z3.Or(n == 0, ok))),
                        "the raw pointer handed back with a count really has that many whole elements inside the sandbox")
        elif q.status == "abort":
            ctx.require(q, z3.Not(ok), "a valid request is carried out")
    ctx.only(paths, "ret", "abort")
    ctx.expect(paths, ret=1, abort=1)
    ctx.validate("k_usp_" + tag, [[B0, pp, nn] for pp in (0, B0, B0 + SIZE - 48) for nn in (0, 1, 48 // asz, 48 // asz + 1, (1 << 64) - 1, (1 << 61) + 1)], base=None)


def check_cavs(ctx):
    base = ctx.sandbox_base(32)
    p = tptr(ctx, "p", base)
    ctx.eng.max_strlen = 7
    mem0 = ctx.eng.initial_memory()
    # stated bound: a NUL within the first 7 bytes at p
    ctx.assume(z3.Or(p == 0, z3.Or(*[z3.Select(mem0, p + BV(i, 64)) == 0 for i in range(7)])))
    paths = ctx.run("k_cavs_unique", [base, p])
    for q in paths:
        rd = [e for e in q.events if e[0] in ("ld", "ld-bulk") and not isinstance(e[1], int)]
        if q.status == "ret":
            ctx.require(q, z3.Or(p == 0, z3.And(*[z3.And(Z(e[1]) >= Z(base), Z(e[1]) + e[2] <= Z(base) + SIZE) for e in rd])) if rd else p == 0,
                        "string copy proceeds only over bytes inside the sandbox")
            if [e for e in q.events if e[0] == "app-oob"]:
                ctx.fail(q, "application buffer overrun")
    ctx.only(paths, "ret", "abort", "alloc-fail")
    ctx.expect(paths, ret=2)


def check_grant(ctx, tag, esz, grantable):
    base = ctx.sandbox_base(32)
    src = ctx.sym("src", 64)
    num = ctx.sym("num", 64)
    paths = ctx.run("k_grant_" + tag, [base, src, num])
    NB = Z(num) * esz
    for q in paths:
        ev = bulk(q, "memcpy")
        lg = q.user.get("log") or []
        grants = [e for e in lg if e[0] == 0x110]
        if q.status == "ret":
            ctx.require(q, z3.Or(q.ret == 0, ctx.in_region(q.ret, base, SIZE)),
                        "the tainted pointer handed back is null or inside the sandbox (a refused grant falls back to copying; the raw buffer address is never wrapped)")
            if grants:
                ctx.require(q, z3.Or(num == 0, not_straddling(base, src, NB)),
                            "access is granted only to a non-null range of num whole elements that does not straddle the sandbox boundary or wrap")
                g = grants[0]
                bvx = lambda v: v if not isinstance(v, int) else BV(v, 64)
                ctx.require(q, z3.And(z3.BoolVal(len(grants) == 1), bvx(g[1]) == src, bvx(g[2]) == num, bvx(g[3]) == esz),
                            "the backend is asked to grant exactly the extent that was checked: the same buffer, num elements of sizeof(T)")
            if ev:
                ln = ev[0][4] if not isinstance(ev[0][4], int) else BV(ev[0][4], 64)
                ctx.require(q, z3.And(len(ev) == 1, ev[0][3] == src, Z(ln) == NB, ev[0][2] == q.ret, inside(base, q.ret, NB), not_straddling(base, src, NB)),
                            "the copy writes exactly num*sizeof(T) bytes inside the sandbox at the returned pointer, reading exactly the source range")
        elif q.status == "abort":
            if ev:
                ctx.fail(q, "memory touched before aborting")
    ctx.only(paths, "ret", "abort")
    ctx.expect(paths, ret=1, abort=1)


def check_deny(ctx, tag, esz, grantable):
    base = ctx.sandbox_base(32)
    p = tptr(ctx, "p", base)
    num = ctx.sym("num", 64)
    ctx.eng.user_max_alloc = 4096
    paths = ctx.run("k_deny_" + tag, [base, p, num])
    NB = Z(num) * esz
    for q in paths:
        ev = bulk(q, "memcpy")
        lg = q.user.get("log") or []
        denies = [e for e in lg if e[0] == 0x111]
        if q.status == "ret":
            if denies:
                ctx.require(q, z3.Or(num == 0, inside(base, p, NB)),
                            "a buffer is handed out of the sandbox with a count only when that many whole elements lie inside it")
                d = denies[0]
                bvx = lambda v: v if not isinstance(v, int) else BV(v, 64)
                ctx.require(q, z3.And(z3.BoolVal(len(denies) == 1), bvx(d[1]) == p, bvx(d[2]) == num, bvx(d[3]) == esz),
                            "the backend is asked to take back exactly the extent that was checked")
            if ev:
                ln = ev[0][4] if not isinstance(ev[0][4], int) else BV(ev[0][4], 64)
                allocs = [e for e in q.events if e[0] == "alloc"]
                asz = allocs[-1][2] if allocs else BV(0, 64)
                asz = asz if not isinstance(asz, int) else BV(asz, 64)
                ctx.require(q, z3.And(len(ev) == 1, ev[0][3] == p, p != 0, Z(ln) == NB, inside(base, p, NB), z3.ULE(ln, asz)),
                            "the copy reads exactly num*sizeof(T) bytes from a non-null range inside the sandbox into a buffer of at least that size")
        elif q.status == "abort":
            if ev:
                ctx.fail(q, "memory touched before aborting")
    ctx.only(paths, "ret", "abort", "alloc-fail")
    ctx.expect(paths, ret=1, abort=1)


def check_bm_usp(ctx, orders=None):
    from specs.C04 import bm_pre
    bs, order, destroy, dead, size = bm_pre(ctx)
    if orders is not None:
        ctx.assume(z3.Or(*[order == o for o in orders]))
    p = ctx.sym("p", 64)
    owner = [z3.And(ctx.in_region(p, bs[i], size), z3.Not(dead(i))) for i in range(3)]
    ctx.assume(z3.Or(*owner))
    ob = z3.If(owner[0], bs[0], z3.If(owner[1], bs[1], bs[2]))
    n = ctx.sym("n", 64)
    ctx.assume(n != 0)
    end = zext(p, 128) + zext(n, 128)
    ok = end <= zext(ob, 128) + size
    paths = ctx.run("k_bm_usp", [bs[0], bs[1], bs[2], order, destroy, p, n])
    for q in paths:
        if q.status == "ret":
            ctx.require(q, z3.And(ok, q.ret == p), "a pointer handed back with a count has that many bytes inside its own sandbox, whatever sandboxes were created and destroyed before")
        elif q.status == "abort":
            ctx.require(q, z3.Not(ok), "a valid request is carried out")
    ctx.only(paths, "ret", "abort")
    ctx.expect(paths, ret=len(orders) if orders else 6, abort=len(orders) if orders else 6)


def jobs(tier, seed):
    src = '#include "verif_sandbox.hpp"\nusing S = B32;\n#include "C10_kernels.inc"\n'
    srcg = '#include "verif_sandbox.hpp"\nusing S = B32G;\n#include "C10_kernels.inc"\n'
    it = []
    for tag, nt in (("sz", C.ULLONG), ("int", C.INT), ("schar", C.SCHAR), ("ushort", C.USHORT), ("llong", C.LLONG), ("tuint", C.UINT), ("tlong", C.LONG),
                    ("tsz", C.ULLONG), ("int_elems", C.ULLONG)):
        it.append(dict(name="memset " + tag, fn=check_memset, kw=dict(k="k_memset_" + tag, nt=nt)))
    it += [dict(name="memcpy tainted src", fn=check_memcpy, kw=dict(k="k_memcpy_tt", op="memcpy", raw_src=False)),
           dict(name="memcpy raw src", fn=check_memcpy, kw=dict(k="k_memcpy_ta", op="memcpy", raw_src=True)),
           dict(name="memcpy raw src tainted size", fn=check_memcpy, kw=dict(k="k_memcpy_ta_tn", op="memcpy", raw_src=True, nbits=32)),
           dict(name="memcmp tainted src", fn=check_memcpy, kw=dict(k="k_memcmp_tt", op="memcmp", raw_src=False)),
           dict(name="memcmp uint32_t size operand", fn=check_memcpy, kw=dict(k="k_memcmp_tt_u32", op="memcmp", raw_src=False, nbits=32)),
           dict(name="memcmp tainted<uint32_t> size operand", fn=check_memcpy, kw=dict(k="k_memcmp_tt_tu32", op="memcmp", raw_src=False, nbits=32)),
           dict(name="memcmp uint16_t size operand", fn=check_memcpy, kw=dict(k="k_memcmp_tt_u16", op="memcmp", raw_src=False, nbits=16)),
           dict(name="memcpy uint32_t size operand", fn=check_memcpy, kw=dict(k="k_memcpy_tt_u32", op="memcpy", raw_src=False, nbits=32)),
           dict(name="memcmp raw src", fn=check_memcpy, kw=dict(k="k_memcmp_ta", op="memcmp", raw_src=True))]
    for tag, a, g in (("char", 1, 1), ("int", 4, 4), ("long", 8, 4), ("llong", 8, 8)):
        it.append(dict(name="copy_and_verify_range " + tag, fn=check_cavr, kw=dict(tag=tag, asz=a, gsz=g), unwind=12))
    for tag, a in (("char", 1), ("int", 4), ("llong", 8)):
        it.append(dict(name="copy_and_verify_buffer_address " + tag, fn=check_cavba, kw=dict(tag=tag, asz=a)))
    for tag, a in (("char", 1), ("int", 4), ("llong", 8), ("vs24", 24), ("long", 8), ("arr4", 16), ("arr23", 48)):
        it.append(dict(name="unverified_safe_pointer_because " + tag, fn=check_usp, kw=dict(tag=tag, asz=a)))
    it.append(dict(name="copy_and_verify_string", fn=check_cavs, unwind=16))
    out = [Job("C10_%d" % i, src, it[i::8]) for i in range(8)]
    gd = []
    for tag, e in (("char", 1), ("short", 2), ("double", 8)):
        gd.append((src, "B32", dict(name="B32 grant " + tag, fn=check_grant, kw=dict(tag=tag, esz=e, grantable=False))))
        gd.append((src, "B32", dict(name="B32 deny " + tag, fn=check_deny, kw=dict(tag=tag, esz=e, grantable=False))))
        gd.append((srcg, "B32G", dict(name="B32G grant " + tag, fn=check_grant, kw=dict(tag=tag, esz=e, grantable=True))))
        gd.append((srcg, "B32G", dict(name="B32G deny " + tag, fn=check_deny, kw=dict(tag=tag, esz=e, grantable=True))))
    for i in range(4):
        for sname, s_ in (("B32", src), ("B32G", srcg)):
            chks = [c for (ss, nm, c) in gd[i::4] if nm == sname]
            if chks:
                out.append(Job("C10_gd_%s_%d" % (sname, i), s_, chks, native=False))
    out.append(Job("C10_BM_usp", '#include "C10_bm.inc"\n', [dict(name="BM unverified_safe_pointer_because after create/destroy histories", fn=check_bm_usp, kw=dict(orders=(0, 3) if tier == "quick" else None), unwind=200)], native=False))
    # copy_and_verify_string on a sandbox-resident char*: only bytes of the range that was checked are touched, for every schedule
    # (kernels and oracle of C09; built here directly because C09's job list itself includes C10's range kernels)
    from specs import C09
    src9 = '#include "verif_sandbox.hpp"\nusing S = B32;\n#include "C09_kernels.inc"\n'
    for k9, kind9 in (("k_cavs_vol_string", "string_s"), ("k_cavs_vol_unique", "string_u")):
        out.append(Job("C10_adv_" + k9, src9, [dict(name="adversarial " + k9, fn=C09.check_variant, kw=dict(k=k9, kind=kind9, bound=6), unwind=40)],
                       flags=["-D_GLIBCXX_EXTERN_TEMPLATE=0"], native=False))
    return out
