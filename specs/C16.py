"""C16 - operators on tainted numbers compute exactly what the plain operators compute."""
import z3
from specs.common import *  # noqa: F401,F403
from specs import common as C

META = {
    "level": "model_checking",
    "bounds": {
        "quick": "18 binary operators x 8 operand-wrapper combinations x 6 operand type pairs, 2 unary operators, 10 compound assignments and "
                 "pre/post ++/-- on tainted and tainted_volatile operands; every operand full-width symbolic; tainted_volatile operands live in B32 memory",
        "thorough": "same with all 100 ordered pairs of the ten standard integer types",
    },
    "outside": "floating-point operands; operand values for which the plain C++ expression is undefined (division by zero is matched as 'both "
               "undefined'; out-of-range shifts and signed overflow are not distinguished from the compiler's choice); combinations that do not compile",
    "assumptions": ["reference = the same expression on plain values compiled by the same compiler in the same TU; "
                    "for tainted_volatile operands the plain value is the decode of the guest cell"],
}

ARITH = [("add", "+"), ("sub", "-"), ("mul", "*"), ("div", "/"), ("mod", "%"), ("xor", "^"), ("and", "&"), ("or", "|"), ("shl", "<<"), ("shr", ">>")]
CMP = [("eq", "=="), ("ne", "!="), ("lt", "<"), ("le", "<="), ("gt", ">"), ("ge", ">=")]
LOGIC = [("land", "&&"), ("lor", "||")]
UNARY = [("neg", "-"), ("not", "~")]
COMBOS = [("t", "t"), ("t", "p"), ("p", "t"), ("t", "tv"), ("tv", "t"), ("tv", "p"), ("tv", "tv"), ("p", "tv")]

RANK = {"int": 1, "uint": 1, "long": 2, "ulong": 2, "llong": 3, "ullong": 3}
BYTAG = {t.tag: t for t in C.STD_INTS}


def promote(t):
    return C.INT if t.bits < 32 else t


def uac(a, b):
    a, b = promote(a), promote(b)
    if a.tag == b.tag:
        return a
    if a.signed == b.signed:
        return a if RANK[a.tag] >= RANK[b.tag] else b
    u, s = (a, b) if not a.signed else (b, a)
    if RANK[u.tag] >= RANK[s.tag]:
        return u
    if s.bits > u.bits:
        return s
    return BYTAG["u" + s.tag]


def result_type(op, a, b):
    if op in ("shl", "shr"):
        return promote(a)
    return uac(a, b)


def operand(w, t, nm):
    if w == "ctv":   # sandbox-resident operand reached through a pointer to const
        return ("uint64_t c%s" % nm, "auto p%s = mk_tainted<const %s*, S>(c%s); auto& x%s = *p%s;" % (nm, t.cxx, nm, nm, nm), "x" + nm)
    if w == "tv":
        return ("uint64_t c%s" % nm, "auto p%s = mk_tainted<%s*, S>(c%s); auto& x%s = *p%s;" % (nm, t.cxx, nm, nm, nm), "x" + nm)
    if w == "t":
        return ("%s %s" % (t.cxx, nm), "tainted<%s, S> x%s = %s;" % (t.cxx, nm, nm), "x" + nm)
    return ("%s %s" % (t.cxx, nm), "", nm)


HELPERS = '''
static inline uint64_t unwrapb(const tainted<bool, S>& r) { return r.UNSAFE_unverified(); }
static inline uint64_t unwrapb(const tainted_boolean_hint& r) { return r.UNSAFE_unverified(); }
static inline uint64_t unwrapb(bool r) { return r; }
'''


def kname(kind, op, wa, a, wb=None, b=None):
    return "k_%s_%s_%s%s%s" % (kind, op, wa, a.tag, ("_%s%s" % (wb, b.tag)) if b is not None else "")


def src_binary(kind, op, sym, wa, a, wb, b):
    da, pa, ea = operand(wa, a, "a")
    db, pb, eb = operand(wb, b, "b")
    nm = kname(kind, op, wa, a, wb, b)
    plain = "(std::declval<%s>() %s std::declval<%s>())" % (a.cxx, sym, b.cxx)
    if kind == "ar":
        ty = "std::is_same_v<decltype(r), tainted<decltype%s, S>>" % plain
        un = "(uint64_t)r.UNSAFE_unverified()"
    else:
        hint = "tv" in (wa, wb) or "ctv" in (wa, wb)
        ty = "std::is_same_v<decltype(r), %s>" % ("tainted_boolean_hint" if hint else "tainted<bool, S>")
        if kind == "lg":
            ty = "std::is_same_v<decltype(r), tainted<bool, S>>"
        un = "unwrapb(r)"
    return ("K uint64_t %s(uint64_t base, %s, %s) { S::g_base = base; %s %s auto r = %s %s %s; env_log(7, %s, 0, 0); return %s; }"
            % (nm, da, db, pa, pb, ea, sym, eb, ty, un))


def src_ref_binary(op, sym, a, b):
    return "K uint64_t r_%s_%s_%s(%s a, %s b) { return (uint64_t)(a %s b); }" % (op, a.tag, b.tag, a.cxx, b.cxx, sym)


def src_unary(op, sym, wa, a):
    da, pa, ea = operand(wa, a, "a")
    nm = kname("un", op, wa, a)
    return ("K uint64_t %s(uint64_t base, %s) { S::g_base = base; %s auto r = %s%s; env_log(7, std::is_same_v<decltype(r), tainted<decltype(%sstd::declval<%s>()), S>>, 0, 0); "
            "return (uint64_t)r.UNSAFE_unverified(); }" % (nm, da, pa, sym, ea, sym, a.cxx))


def src_compound(op, sym, wa, a, wb, b):
    da, pa, ea = operand(wa, a, "a")
    db, pb, eb = operand(wb, b, "b")
    nm = kname("ca", op, wa, a, wb, b)
    # the plain expression a op= b is an lvalue designating a: the wrapped one must be an lvalue reference to the operand itself
    return ("K uint64_t %s(uint64_t base, %s, %s) { S::g_base = base; %s %s constexpr bool isref = std::is_lvalue_reference_v<decltype(%s %s= %s)>; "
            "auto&& r = (%s %s= %s); env_log(7, (uint64_t)(isref && std::addressof(r) == std::addressof(%s)), 0, 0); "
            "return (uint64_t)%s.UNSAFE_unverified(); }" % (nm, da, db, pa, pb, ea, sym, eb, ea, sym, eb, ea, ea))


def src_ref_compound(op, sym, a, b):
    return "K uint64_t rc_%s_%s_%s(%s a, %s b) { a %s= b; return (uint64_t)a; }" % (op, a.tag, b.tag, a.cxx, b.cxx, sym)


def src_incdec(op, wa, a):
    da, pa, ea = operand(wa, a, "a")
    nm = kname("id", op, wa, a)
    e = {"preinc": "constexpr bool isref = std::is_lvalue_reference_v<decltype(++%s)>; auto&& r = ++%s; env_log(1, (uint64_t)r.UNSAFE_unverified(), (uint64_t)(isref && std::addressof(r) == std::addressof(%s)), 0);" % (ea, ea, ea),
         "predec": "constexpr bool isref = std::is_lvalue_reference_v<decltype(--%s)>; auto&& r = --%s; env_log(1, (uint64_t)r.UNSAFE_unverified(), (uint64_t)(isref && std::addressof(r) == std::addressof(%s)), 0);" % (ea, ea, ea),
         "postinc": "auto r = %s++; env_log(1, (uint64_t)r.UNSAFE_unverified(), std::is_same_v<decltype(r), %s>, 0);" % (ea, "tainted<%s, S>" % a.cxx if wa == "t" else "tainted_volatile<%s, S>" % a.cxx),
         "postdec": "auto r = %s--; env_log(1, (uint64_t)r.UNSAFE_unverified(), std::is_same_v<decltype(r), %s>, 0);" % (ea, "tainted<%s, S>" % a.cxx if wa == "t" else "tainted_volatile<%s, S>" % a.cxx)}[op]
    return "K uint64_t %s(uint64_t base, %s) { S::g_base = base; %s %s return (uint64_t)%s.UNSAFE_unverified(); }" % (nm, da, pa, e, ea)


def src_ref_incdec(op, a):
    e = {"preinc": "uint64_t v = (uint64_t)(++a);", "predec": "uint64_t v = (uint64_t)(--a);",
         "postinc": "uint64_t v = (uint64_t)(a++);", "postdec": "uint64_t v = (uint64_t)(a--);"}[op]
    e2 = {"preinc": "a + 1", "predec": "a - 1", "postinc": "a + 1", "postdec": "a - 1"}[op]
    return ("K uint64_t ri_%s_%s(%s a) { uint64_t w = (uint64_t)(%s); %s env_log(1, v, w, 0); return (uint64_t)a; }" % (op, a.tag, a.cxx, e2, e))


# ------------------------------------------------------------------ checks
def sym_operand(ctx, w, t, nm, base, size):
    """returns (kernel arg, plain value expr of width t.bits, validation values)"""
    if w in ("tv", "ctv"):
        c = ctx.sym("c" + nm, 64)
        gb = t.gbits // 8
        ctx.assume(z3.UGE(c, base), z3.ULE(c - base, BV(size - 8, 64)))
        mem0 = ctx.eng.initial_memory()
        raw = z3.Concat(*[z3.Select(mem0, c + BV(i, 64)) for i in reversed(range(gb))]) if gb > 1 else z3.Select(mem0, c)
        v = ext(raw, t.signed, t.bits) if t.gbits < t.bits else raw
        return c, v
    v = ctx.sym(nm, t.bits)
    return v, v


def cross(ctx, kp, rp, what, cond_fn):
    """for every pair of (kernel path, reference path): under both path conditions cond_fn(p, q) holds"""
    for p in kp:
        if p.status in ("unsupported", "unwind"):
            continue     # reported as inconclusive by ctx.only
        for q in rp:
            if q.status in ("unsupported", "unwind"):
                continue
            c = cond_fn(p, q)
            if c is None:
                continue
            ctx.require(p, z3.Implies(z3.And(*q.pc) if q.pc else z3.BoolVal(True), c), what)


def vecs(t):
    # concrete translator-validation inputs: kept inside the range where the plain C++ expression has no
    # undefined behaviour for every operator (no signed overflow, no oversized shift, no division by zero)
    return [1, 2, 3, 5, 7, 11]


def run_pair(ctx, k, kargs, r, rargs):
    kp = ctx.run(k, kargs)
    rp = ctx.run(r, rargs)
    return kp, rp


def check_binary(ctx, kind, op, wa, a, wb, b, log=32):
    base = ctx.sandbox_base(log)
    size = 1 << log
    ka, va = sym_operand(ctx, wa, a, "a", base, size)
    kb, vb = sym_operand(ctx, wb, b, "b", base, size)
    k = kname(kind, op, wa, a, wb, b)
    r = "r_%s_%s_%s" % (op, a.tag, b.tag)
    kp, rp = run_pair(ctx, k, [base, ka, kb], r, [va, vb])

    def cond(p, q):
        if q.status == "ub":
            return None  # plain expression undefined: no obligation
        if q.status != "ret":
            return z3.BoolVal(False)
        if p.status != "ret":
            return z3.BoolVal(False)
        lg = p.user.get("log") or []
        tyok = z3.BoolVal(len(lg) == 1 and lg[0][1] == 1)
        return z3.And(p.ret == q.ret, tyok)
    cross(ctx, kp, rp, "same value and C++ type as the plain expression (a %s b)" % op, cond)
    ctx.expect(kp, ret=1)
    b0 = 0x300000000
    if "tv" not in (wa, wb) and "ctv" not in (wa, wb):
        ctx.validate(k, [[b0, x, y] for x in vecs(a)[:6] for y in vecs(b)[:6] if not (op in ("div", "mod") and y == 0)])
        ctx.validate(r, [[x, y] for x in vecs(a)[:6] for y in vecs(b)[:6] if not (op in ("div", "mod") and y == 0)])
    else:
        for (x, y) in ((5, 3), (11, 1), (2, 7)):
            mem = {}
            ax, bx = x, y
            if wa in ("tv", "ctv"):
                mem.update({b0 + 0x40 + i: (x >> (8 * i)) & 0xFF for i in range(8)})
                ax = b0 + 0x40
            if wb in ("tv", "ctv"):
                mem.update({b0 + 0x80 + i: (y >> (8 * i)) & 0xFF for i in range(8)})
                bx = b0 + 0x80
            if op in ("div", "mod") and (y & ((1 << min(b.bits, b.gbits)) - 1)) == 0:
                continue
            ctx.validate(k, [[b0, ax, bx]], mem=mem, base=b0)


def check_unary(ctx, op, wa, a, log=32):
    base = ctx.sandbox_base(log)
    ka, va = sym_operand(ctx, wa, a, "a", base, 1 << log)
    k = kname("un", op, wa, a)
    kp, rp = run_pair(ctx, k, [base, ka], "ru_%s_%s" % (op, a.tag), [va])

    def cond(p, q):
        lg = p.user.get("log") or []
        return z3.And(p.ret == q.ret, z3.BoolVal(len(lg) == 1 and lg[0][1] == 1)) if p.status == "ret" and q.status == "ret" else z3.BoolVal(False)
    cross(ctx, kp, rp, "same value and type as plain %s a" % op, cond)
    ctx.expect(kp, ret=1)
    if wa != "tv":
        ctx.validate(k, [[0x300000000, x] for x in vecs(a)])


def check_compound(ctx, op, wa, a, wb, b, log=32):
    base = ctx.sandbox_base(log)
    size = 1 << log
    ka, va = sym_operand(ctx, wa, a, "a", base, size)
    kb, vb = sym_operand(ctx, wb, b, "b", base, size)
    if wa == "tv" and wb == "tv":
        ctx.assume(z3.Or(z3.UGE(ka - kb, BV(8, 64)), z3.UGE(kb - ka, BV(8, 64))))
        ctx.assume(z3.UGE(ka - kb, BV(8, 64)), z3.UGE(kb - ka, BV(8, 64)))
    k = kname("ca", op, wa, a, wb, b)
    kp = ctx.run(k, [base, ka, kb])
    rp = ctx.run("rc_%s_%s_%s" % (op, a.tag, b.tag), [va, vb])
    fp = ctx.run("r_%s_%s_%s" % (op, a.tag, b.tag), [va, vb])     # un-truncated plain result (type R)
    R = result_type(op, a, b)

    def cond(p, q):
        if q.status == "ub":
            return None
        if p.status == "ret" and q.status == "ret":
            lg = p.user.get("log") or []
            c = [z3.Extract(a.bits - 1, 0, p.ret) == z3.Extract(a.bits - 1, 0, q.ret), z3.BoolVal(len(lg) == 1 and lg[0][1] == 1)]
            if wa == "tv":
                gb = a.gbits // 8
                st = z3.Concat(*[z3.Select(p.mem, ka + BV(i, 64)) for i in reversed(range(gb))]) if gb > 1 else z3.Select(p.mem, ka)
                c.append(ext(st, a.signed) == ext(z3.Extract(a.bits - 1, 0, q.ret), a.signed))
            return z3.And(*c)
        if p.status == "abort" and wa == "tv" and q.status == "ret":
            return None  # judged against the un-truncated result below
        return z3.BoolVal(False)
    cross(ctx, kp, rp, "operand updated exactly as the plain a %s= b" % op, cond)

    def cond_abort(p, q):
        if p.status != "abort" or q.status != "ret":
            return None
        if wa != "tv":
            return z3.BoolVal(False)
        full = ext(z3.Extract(R.bits - 1, 0, q.ret), R.signed)
        return z3.Not(z3.And(full >= a.gmin, full <= a.gmax))
    cross(ctx, kp, fp, "a sandbox-resident operand aborts only when the plain result does not fit the stored guest type", cond_abort)
    ctx.only(kp, "ret", "abort", "ub")
    ctx.expect(kp, ret=1)
    if "tv" not in (wa, wb):
        ctx.validate(k, [[0x300000000, x, y] for x in vecs(a)[:6] for y in vecs(b)[:6] if not (op in ("div", "mod") and y == 0)])


def check_incdec(ctx, op, wa, a, log=32):
    base = ctx.sandbox_base(log)
    ka, va = sym_operand(ctx, wa, a, "a", base, 1 << log)
    k = kname("id", op, wa, a)
    kp = ctx.run(k, [base, ka])
    rp = ctx.run("ri_%s_%s" % (op, a.tag), [va])

    def cond(p, q):
        if q.status != "ret":
            return z3.BoolVal(False)
        ql = q.user["log"][0]
        if p.status == "ret":
            pl = (p.user.get("log") or [None])[0]
            if pl is None:
                return z3.BoolVal(False)
            c = [z3.Extract(a.bits - 1, 0, p.ret) == z3.Extract(a.bits - 1, 0, q.ret),
                 z3.Extract(a.bits - 1, 0, pl[1] if not isinstance(pl[1], int) else BV(pl[1], 64)) ==
                 z3.Extract(a.bits - 1, 0, ql[1] if not isinstance(ql[1], int) else BV(ql[1], 64)),
                 (pl[2] == 1) if not isinstance(pl[2], int) else z3.BoolVal(pl[2] == 1)]
            if wa == "tv":
                gb = a.gbits // 8
                st = z3.Concat(*[z3.Select(p.mem, ka + BV(i, 64)) for i in reversed(range(gb))]) if gb > 1 else z3.Select(p.mem, ka)
                c.append(ext(st, a.signed) == ext(z3.Extract(a.bits - 1, 0, q.ret), a.signed))
            return z3.And(*c)
        if p.status == "abort" and wa == "tv":
            P = promote(a)
            w = ql[2] if not isinstance(ql[2], int) else BV(ql[2], 64)
            full = ext(z3.Extract(P.bits - 1, 0, w), P.signed)
            return z3.Not(z3.And(full >= a.gmin, full <= a.gmax))
        return z3.BoolVal(False)
    cross(ctx, kp, rp, "%s stores and returns the same values as on a plain integer" % op, cond)
    ctx.only(kp, "ret", "abort")
    ctx.expect(kp, ret=1)
    if wa != "tv":
        ctx.validate(k, [[0x300000000, x] for x in vecs(a)])


# ------------------------------------------------------------------ floating-point operands
# Operands travel as IEEE bit patterns in integer registers (the native driver passes integers); NaN results are
# canonicalised inside both the kernel and the reference so that payload bits (unspecified) never matter.
FTYPES = {"f": ("float", "uint32_t", 32), "d": ("double", "uint64_t", 64), "i": ("int", "int", 32)}
FHELP = '''
static inline float fl_f(uint32_t b) { float f; __builtin_memcpy(&f, &b, 4); return f; }
static inline double fl_d(uint64_t b) { double f; __builtin_memcpy(&f, &b, 8); return f; }
static inline int fl_i(int b) { return b; }
static inline uint64_t bits(float f) { if (f != f) return 0x7fc00000u; uint32_t b; __builtin_memcpy(&b, &f, 4); return b; }
static inline uint64_t bits(double f) { if (f != f) return 0x7ff8000000000000ull; uint64_t b; __builtin_memcpy(&b, &f, 8); return b; }
'''
FARITH = [("add", "+"), ("sub", "-"), ("mul", "*"), ("div", "/")]
FCOMBOS = [("t", "t"), ("t", "p"), ("p", "t"), ("tv", "t"), ("tv", "p"), ("t", "tv")]


def f_operand(w, ft, nm):
    cxx, ity, _ = FTYPES[ft]
    if w == "tv":
        return ("uint64_t c%s" % nm, "auto p%s = mk_tainted<%s*, S>(c%s); auto& x%s = *p%s;" % (nm, cxx, nm, nm, nm), "x" + nm)
    if w == "t":
        return ("%s %s" % (ity, nm), "tainted<%s, S> x%s = fl_%s(%s);" % (cxx, nm, ft, nm), "x" + nm)
    return ("%s %s" % (ity, nm), "", "fl_%s(%s)" % (ft, nm))


def f_src(kind, op, sym, wa, fa, wb, fb):
    da, pa, ea = f_operand(wa, fa, "a")
    db, pb, eb = f_operand(wb, fb, "b")
    nm = "k_f%s_%s_%s%s_%s%s" % (kind, op, wa, fa, wb, fb)
    plain = "(std::declval<%s>() %s std::declval<%s>())" % (FTYPES[fa][0], sym, FTYPES[fb][0])
    if kind == "ar":
        ty = "std::is_same_v<decltype(r), tainted<decltype%s, S>>" % plain
        un = "bits(r.UNSAFE_unverified())"
    else:
        ty = "std::is_same_v<decltype(r), %s>" % ("tainted_boolean_hint" if "tv" in (wa, wb) else "tainted<bool, S>")
        un = "unwrapb(r)"
    return ("K uint64_t %s(uint64_t base, %s, %s) { S::g_base = base; %s %s auto r = %s %s %s; env_log(7, %s, 0, 0); return %s; }"
            % (nm, da, db, pa, pb, ea, sym, eb, ty, un))


def f_ref(kind, op, sym, fa, fb):
    r = "fl_%s(a) %s fl_%s(b)" % (fa, sym, fb)
    return "K uint64_t r_f%s_%s_%s%s(%s a, %s b) { return %s; }" % (kind, op, fa, fb, FTYPES[fa][1], FTYPES[fb][1], ("bits(%s)" % r) if kind == "ar" else ("(uint64_t)(%s)" % r))


def f_src_unary(wa, fa):
    da, pa, ea = f_operand(wa, fa, "a")
    return ("K uint64_t k_fun_neg_%s%s(uint64_t base, %s) { S::g_base = base; %s auto r = -%s; env_log(7, std::is_same_v<decltype(r), tainted<%s, S>>, 0, 0); "
            "return bits(r.UNSAFE_unverified()); }" % (wa, fa, da, pa, ea, FTYPES[fa][0]))


def f_src_compound(op, sym, wa, fa, wb, fb):
    da, pa, ea = f_operand(wa, fa, "a")
    db, pb, eb = f_operand(wb, fb, "b")
    return ("K uint64_t k_fca_%s_%s%s_%s%s(uint64_t base, %s, %s) { S::g_base = base; %s %s auto&& r = (%s %s= %s); "
            "env_log(7, (uint64_t)(std::is_lvalue_reference_v<decltype(%s %s= %s)> && std::addressof(r) == std::addressof(%s)), 0, 0); return bits(%s.UNSAFE_unverified()); }"
            % (op, wa, fa, wb, fb, da, db, pa, pb, ea, sym, eb, ea, sym, eb, ea, ea))


def f_src_incdec(op, wa, fa):
    da, pa, ea = f_operand(wa, fa, "a")
    e = {"preinc": "auto&& r = ++%s;" % ea, "predec": "auto&& r = --%s;" % ea, "postinc": "auto r = %s++;" % ea, "postdec": "auto r = %s--;" % ea}[op]
    return ("K uint64_t k_fid_%s_%s%s(uint64_t base, %s) { S::g_base = base; %s %s env_log(1, bits(r.UNSAFE_unverified()), 0, 0); return bits(%s.UNSAFE_unverified()); }"
            % (op, wa, fa, da, pa, e, ea))


def f_ref_incdec(op, fa):
    e = {"preinc": "auto v = ++x;", "predec": "auto v = --x;", "postinc": "auto v = x++;", "postdec": "auto v = x--;"}[op]
    return "K uint64_t r_fid_%s_%s(%s a) { auto x = fl_%s(a); %s env_log(1, bits(v), 0, 0); return bits(x); }" % (op, fa, FTYPES[fa][1], fa, e)


def check_float_incdec(ctx, op, wa, fa, log=32):
    base = ctx.sandbox_base(log)
    ka, va = f_sym_operand(ctx, wa, fa, "a", base, 1 << log)
    k = "k_fid_%s_%s%s" % (op, wa, fa)
    kp, rp = run_pair(ctx, k, [base, ka], "r_fid_%s_%s" % (op, fa), [va])

    def cond(p, q):
        if q.status != "ret" or p.status != "ret":
            return z3.BoolVal(False)
        lp, lq = p.user.get("log") or [], q.user.get("log") or []
        if len(lp) != 1 or len(lq) != 1:
            return z3.BoolVal(False)
        as_bv = lambda v: BV(v, 64) if isinstance(v, int) else v
        return z3.And(p.ret == q.ret, as_bv(lp[0][1]) == as_bv(lq[0][1]))
    cross(ctx, kp, rp, "%s stores and returns the same values as on the plain floating-point object (inexact steps included)" % op, cond)
    ctx.expect(kp, ret=1)
    if wa != "tv":
        ctx.validate(k, [[0x300000000, x] for x in FVEC[FTYPES[fa][2]] + ([0x3dcccccd, 0x4b800000] if fa == "f" else [0x3fb999999999999a, 0x4340000000000000])])


def check_float_unary(ctx, wa, fa, log=32):
    base = ctx.sandbox_base(log)
    ka, va = f_sym_operand(ctx, wa, fa, "a", base, 1 << log)
    kp, rp = run_pair(ctx, "k_fun_neg_%s%s" % (wa, fa), [base, ka], "r_fun_neg_%s" % fa, [va])

    def cond(p, q):
        if q.status != "ret" or p.status != "ret":
            return z3.BoolVal(False)
        lg = p.user.get("log") or []
        return z3.And(p.ret == q.ret, z3.BoolVal(len(lg) == 1 and lg[0][1] == 1))
    cross(ctx, kp, rp, "same value and C++ type as the plain expression (-a)", cond)
    ctx.expect(kp, ret=1)
    if wa != "tv":
        ctx.validate("k_fun_neg_%s%s" % (wa, fa), [[0x300000000, x] for x in FVEC[FTYPES[fa][2]]])
        ctx.validate("r_fun_neg_%s" % fa, [[x] for x in FVEC[FTYPES[fa][2]]])


def check_float_compound(ctx, op, wa, fa, wb, fb, log=32):
    base = ctx.sandbox_base(log)
    size = 1 << log
    ka, va = f_sym_operand(ctx, wa, fa, "a", base, size)
    kb, vb = f_sym_operand(ctx, wb, fb, "b", base, size)
    if wa == "tv" and wb == "tv":
        ctx.assume(ka != kb)
    k = "k_fca_%s_%s%s_%s%s" % (op, wa, fa, wb, fb)
    kp, rp = run_pair(ctx, k, [base, ka, kb], "r_fca_%s_%s%s" % (op, fa, fb), [va, vb])
    n = FTYPES[fa][2]

    def cond(p, q):
        if q.status != "ret" or p.status != "ret":
            return z3.BoolVal(False)
        lg = p.user.get("log") or []
        c_ = z3.And(p.ret == q.ret, z3.BoolVal(len(lg) == 1 and lg[0][1] == 1))
        if wa == "tv":
            # the operand object in sandbox memory holds the new value (NaN payloads aside)
            stored = z3.Concat(*[z3.Select(p.mem, ka + BV(i, 64)) for i in reversed(range(n // 8))])
            isnan = z3.fpIsNaN(z3.fpBVToFP(stored, ctx.eng.FSORT[n]))
            qn = z3.fpIsNaN(z3.fpBVToFP(z3.Extract(n - 1, 0, q.ret), ctx.eng.FSORT[n]))
            c_ = z3.And(c_, z3.Or(z3.And(isnan, qn), z3.ZeroExt(64 - n, stored) == q.ret))
        return c_
    cross(ctx, kp, rp, "a %s= b updates the operand and yields it, like the plain floating-point expression" % op, cond)
    ctx.expect(kp, ret=1)
    if "tv" not in (wa, wb):
        vv = [[x, y] for x in FVEC[FTYPES[fa][2]] for y in FVEC[FTYPES[fb][2]]]
        ctx.validate(k, [[0x300000000] + v for v in vv])
        ctx.validate("r_fca_%s_%s%s" % (op, fa, fb), vv)


def f_sym_operand(ctx, w, ft, nm, base, size):
    n = FTYPES[ft][2]
    if w == "tv":
        c_ = ctx.sym("c" + nm, 64)
        ctx.assume(z3.UGE(c_, base), z3.ULE(c_ - base, BV(size - 8, 64)))
        mem0 = ctx.eng.initial_memory()
        return c_, z3.Concat(*[z3.Select(mem0, c_ + BV(i, 64)) for i in reversed(range(n // 8))])
    v = ctx.sym(nm, n)
    return v, v


FVEC = {32: [0x3f800000, 0xc0200000, 0x7fc00000, 0x00000000, 0x80000000, 0x7f800000, 0x00000001],
        64: [0x3ff0000000000000, 0xc004000000000000, 0x7ff8000000000000, 0, 0x8000000000000000, 0x7ff0000000000000, 1]}


def check_float(ctx, kind, op, wa, fa, wb, fb, log=32):
    base = ctx.sandbox_base(log)
    size = 1 << log
    ka, va = f_sym_operand(ctx, wa, fa, "a", base, size)
    kb, vb = f_sym_operand(ctx, wb, fb, "b", base, size)
    k = "k_f%s_%s_%s%s_%s%s" % (kind, op, wa, fa, wb, fb)
    r = "r_f%s_%s_%s%s" % (kind, op, fa, fb)
    kp, rp = run_pair(ctx, k, [base, ka, kb], r, [va, vb])

    def cond(p, q):
        if q.status != "ret" or p.status != "ret":
            return z3.BoolVal(False)
        lg = p.user.get("log") or []
        return z3.And(p.ret == q.ret, z3.BoolVal(len(lg) == 1 and lg[0][1] == 1))
    cross(ctx, kp, rp, "same value (NaN operands included) and C++ type as the plain floating-point expression (a %s b)" % op, cond)
    ctx.expect(kp, ret=1)
    b0 = 0x300000000
    if "tv" not in (wa, wb):
        vv = [[x, y] for x in FVEC[FTYPES[fa][2]] for y in FVEC[FTYPES[fb][2]]]
        ctx.validate(k, [[b0] + v for v in vv])
        ctx.validate(r, vv)


def float_jobs(tier):
    out = []
    fpairs = [("f", "f"), ("d", "d"), ("f", "d"), ("f", "i"), ("i", "d")] + ([("d", "f"), ("i", "f"), ("d", "i")] if tier == "thorough" else [])
    for fa, fb in fpairs:
        items = []
        refs = [HELPERS, FHELP]
        for kind, ops in (("cm", CMP), ("ar", FARITH)):
            for op, sym in ops:
                refs.append(f_ref(kind, op, sym, fa, fb))
                for wa, wb in FCOMBOS:
                    if kind == "ar" and tier != "thorough" and (wa, wb) not in (("t", "t"), ("tv", "p")):
                        continue
                    items.append((f_src(kind, op, sym, wa, fa, wb, fb),
                                  dict(name="f%s %s%s %s %s%s" % (kind, wa, fa, op, wb, fb), fn=check_float, kw=dict(kind=kind, op=op, wa=wa, fa=fa, wb=wb, fb=fb))))
        if fa != "i":
            if fa == fb:
                refs.append("K uint64_t r_fun_neg_%s(%s a) { return bits(-fl_%s(a)); }" % (fa, FTYPES[fa][1], fa))
                for wa in ("t", "tv"):
                    items.append((f_src_unary(wa, fa), dict(name="fun neg %s%s" % (wa, fa), fn=check_float_unary, kw=dict(wa=wa, fa=fa))))
            if fa == fb:
                for op in ("preinc", "predec", "postinc", "postdec"):
                    refs.append(f_ref_incdec(op, fa))
                    for wa in ("t", "tv"):
                        if wa == "tv" and op.startswith("post"):
                            continue   # does not compile (copying a tainted_volatile is private), as for the integer types
                        items.append((f_src_incdec(op, wa, fa), dict(name="fid %s %s%s" % (op, wa, fa), fn=check_float_incdec, kw=dict(op=op, wa=wa, fa=fa))))
            for op, sym in (FARITH if tier == "thorough" else FARITH[:1] + FARITH[2:3]):
                refs.append("K uint64_t r_fca_%s_%s%s(%s a, %s b) { auto x = fl_%s(a); x %s= fl_%s(b); return bits(x); }" % (op, fa, fb, FTYPES[fa][1], FTYPES[fb][1], fa, sym, fb))
                for wa, wb in (("t", "p"), ("t", "t"), ("tv", "p"), ("tv", "t"), ("t", "tv")):
                    if wa == "t" and fa == "f" and fb == "d":
                        continue   # tainted<float> = tainted<double> does not compile (same rule as for the integer types)
                    items.append((f_src_compound(op, sym, wa, fa, wb, fb), dict(name="fca %s%s %s= %s%s" % (wa, fa, op, wb, fb), fn=check_float_compound,
                                                                              kw=dict(op=op, wa=wa, fa=fa, wb=wb, fb=fb))))
        for gi, grp in enumerate([items[i::2] for i in range(2)]):
            src = C.PRELUDE + "using S = B32;\n" + "\n".join(refs) + "\n" + "\n".join(s for s, _ in grp) + "\n"
            out.append(Job("C16_float_%s%s_%d" % (fa, fb, gi), src, [c_ for _, c_ in grp], flags=["-fno-exceptions"]))
    return out


def jobs(tier, seed):
    return int_jobs(tier, seed) + float_jobs(tier)


def int_jobs(tier, seed):
    T = BYTAG
    pairs = [("int", "int"), ("uchar", "schar"), ("ullong", "int"), ("long", "uint"), ("short", "llong"), ("schar", "schar"), ("long", "ulong")]
    if tier == "thorough":
        names = ["schar", "uchar", "short", "ushort", "int", "uint", "long", "ulong", "llong", "ullong"]
        pairs = [(x, y) for x in names for y in names]        # every ordered pair of the ten standard integer types
    out = []
    for an, bn in pairs:
        a, b = T[an], T[bn]
        items = []   # (source, check dict)
        refs = [HELPERS]
        for op, sym in ARITH + CMP + LOGIC:
            refs.append(src_ref_binary(op, sym, a, b))
        for op, sym in ARITH:
            refs.append(src_ref_compound(op, sym, a, b))
        for op, sym in UNARY:
            refs.append("K uint64_t ru_%s_%s(%s a) { return (uint64_t)(%sa); }" % (op, a.tag, a.cxx, sym))
        for op in ("preinc", "predec", "postinc", "postdec"):
            refs.append(src_ref_incdec(op, a))
        for kind, ops in (("ar", ARITH), ("cm", CMP), ("lg", LOGIC)):
            for op, sym in ops:
                for wa, wb in COMBOS:
                    if op == "and" and wa == "tv" and wb == "tv":
                        continue  # tainted_volatile's binary & forwards its rhs by value; a tainted_volatile rhs is not copyable: does not compile
                    items.append((src_binary(kind, op, sym, wa, a, wb, b),
                                  dict(name="%s %s%s %s %s%s" % (kind, wa, a.tag, op, wb, b.tag), fn=check_binary,
                                       kw=dict(kind=kind, op=op, wa=wa, a=a, wb=wb, b=b))))
        # const-qualified sandbox-resident operands (read-only: binary operators and comparisons)
        for kind, op, sym in (("ar", "add", "+"), ("ar", "shr", ">>"), ("cm", "lt", "<"), ("ar", "xor", "^")):
            for wa, wb in (("ctv", "p"), ("t", "ctv")):
                items.append((src_binary(kind, op, sym, wa, a, wb, b),
                              dict(name="%s %s%s %s %s%s" % (kind, wa, a.tag, op, wb, b.tag), fn=check_binary,
                                   kw=dict(kind=kind, op=op, wa=wa, a=a, wb=wb, b=b))))
        for op, sym in UNARY:
            for wa in ("t", "tv"):
                items.append((src_unary(op, sym, wa, a), dict(name="un %s %s%s" % (op, wa, a.tag), fn=check_unary, kw=dict(op=op, wa=wa, a=a))))
        for op, sym in ARITH:
            for wa in ("t", "tv"):
                if wa == "t" and result_type(op, a, b).tag != a.tag:
                    continue  # tainted<A> = tainted<R> does not compile unless R is A
                for wb in ("t", "p", "tv"):
                    items.append((src_compound(op, sym, wa, a, wb, b),
                                  dict(name="ca %s%s %s= %s%s" % (wa, a.tag, op, wb, b.tag), fn=check_compound,
                                       kw=dict(op=op, wa=wa, a=a, wb=wb, b=b))))
        for op in ("preinc", "predec", "postinc", "postdec"):
            for wa in ("t", "tv"):
                if wa == "t" and promote(a).tag != a.tag:
                    continue
                if wa == "tv" and op.startswith("post"):
                    continue  # copying a tainted_volatile is private: x++ on sandbox-resident values does not compile
                items.append((src_incdec(op, wa, a), dict(name="id %s %s%s" % (op, wa, a.tag), fn=check_incdec, kw=dict(op=op, wa=wa, a=a))))
        for gi, grp in enumerate([items[i::5] for i in range(5)]):
            src = C.PRELUDE + "using S = B32;\n" + "\n".join(refs) + "\n" + "\n".join(s for s, _ in grp) + "\n"
            out.append(Job("C16_%s_%s_%d" % (an, bn, gi), src, [c for _, c in grp], flags=["-fno-exceptions"]))
        if (an, bn) in (("uchar", "schar"), ("short", "llong")):
            # configuration: RLBOX_ENABLE_DEBUG_ASSERTIONS must not change any result (sub-int operands, shifts included)
            dbg = [(s_, dict(c, name=c["name"] + " [debug assertions]")) for s_, c in items if c["fn"] is check_binary and c["kw"]["op"] in ("shl", "shr", "add", "lt")]
            src = C.PRELUDE + "using S = B32;\n" + "\n".join(refs) + "\n" + "\n".join(s_ for s_, _ in dbg) + "\n"
            out.append(Job("C16_%s_%s_dbg" % (an, bn), src, [c for _, c in dbg], flags=["-fno-exceptions", "-DRLBOX_ENABLE_DEBUG_ASSERTIONS"]))
    return out
