"""C02 (run-time half) - application pointers cannot enter a sandbox unchecked."""
import z3
from specs.common import *  # noqa: F401,F403
from specs import common as C

META = {
    "level": "model_checking",
    "bounds": {
        "quick": "assign_raw_pointer (tainted and tainted_volatile) and UNSAFE_accept_pointer for pointee kinds {char,int,const int,void,struct,function} "
                 "on B32 with symbolic base/address/cell; on BM with two live sandboxes in both creation orders (address may be in the other sandbox)",
        "thorough": "same plus B16",
    },
    "outside": "the compile-time half of C02 (rejected program shapes: raw pointer construction/assignment, argument kinds, callback signatures) - "
               "a rejected program has no IR to execute; see DESIGN.md 4/C02",
    "assumptions": [],
}
TAGS = ["char", "int", "void", "vs24", "fn", "cint"]


def check_entry(ctx, kind, tag, log):
    base = ctx.sandbox_base(log)
    size = 1 << log
    pb = log // 8
    addr = ctx.sym("addr", 64)
    inside = ctx.in_region(addr, base, size)
    b0 = 0x300000000 if log == 32 else 0x300000000 + (2 << log)
    avs = [0, b0, b0 + size - 1, b0 + size, b0 - 1, b0 + 0x100 % size, 0x7ffd00001000, b0 + (1 << 32) + 5, b0 + size // 2]
    if kind == "assignvol":
        k = "k_assignvol_" + tag
        cell = ctx.sym("cell", 64)
        ctx.assume(z3.UGE(cell, base), z3.ULE(cell - base, BV(size - pb, 64)))
        paths = ctx.run(k, [base, cell, addr])
        for q in paths:
            if q.status == "ret":
                st = z3.Concat(*[z3.Select(q.mem, cell + BV(i, 64)) for i in reversed(range(pb))])
                ctx.require(q, z3.And(inside, zext(st, 64) == addr - base),
                            "accepted only when the address is inside this sandbox, and the cell holds its representation")
                w = [e for e in q.events if e[0] == "st" and not isinstance(e[1], int)]
                ctx.require(q, z3.And(*[z3.And(z3.UGE(e[1], cell), z3.ULE(e[1] + e[2], cell + pb)) for e in w]) if w else z3.BoolVal(False),
                            "only the bytes of the pointer cell are written")
            elif q.status == "abort":
                ctx.require(q, z3.Not(inside), "aborts only when the address is outside this sandbox")
                w = [e for e in q.events if e[0] in ("st", "st-bulk")]
                if w:
                    ctx.fail(q, "sandbox memory was written (%r) although the address was refused" % (w[0],))
        vec = [[b0, b0 + 0x40 % size, a] for a in avs]
    elif kind == "assignslot":
        k = "k_assignslot_" + tag
        slot = ctx.buffer(8, name="slot")
        old = z3.Concat(*reversed(slot.init))
        paths = ctx.run(k, [base, slot, addr])
        for q in paths:
            now = z3.Concat(*[ctx.eng.cbyte(q, slot.addr + i) for i in reversed(range(8))])
            if q.status == "ret":
                ctx.require(q, z3.And(inside, q.ret == addr, now == addr), "accepted only when the address is inside this sandbox; value unchanged")
            elif q.status == "abort":
                ctx.require(q, z3.And(z3.Not(inside), now == old), "aborts only when the address is outside this sandbox, and the tainted pointer keeps its previous value")
        vec = None
    else:
        k = "k_%s_%s" % (kind, tag)
        paths = ctx.run(k, [base, addr])
        for q in paths:
            if q.status == "ret":
                ctx.require(q, z3.And(inside, q.ret == addr), "accepted only when the address is inside this sandbox; value unchanged")
            elif q.status == "abort":
                ctx.require(q, z3.Not(inside), "aborts only when the address is outside this sandbox")
        vec = [[b0, a] for a in avs]
    ctx.only(paths, "ret", "abort")
    ctx.expect(paths, ret=1, abort=1)
    if vec is not None:
        ctx.validate(k, vec, base=b0)


def check_life(ctx, k, phase):
    """B32L: an entry point used on a sandbox object that is not created (never / destroyed) must refuse every address;
    after re-creation at another base only the new region is accepted"""
    size = 1 << 32
    base = ctx.sandbox_base(32, "base")
    base2 = ctx.sandbox_base(32, "base2")
    ctx.assume(base != base2)
    addr = ctx.sym("addr", 64)
    args = [BV(phase, 32), base, base2]
    if k == "k_life_assignvol":
        cell = ctx.sym("cell", 64)
        live = base2 if phase == 2 else base
        ctx.assume(z3.UGE(cell, live), z3.ULE(cell - live, BV(size - 4, 64)))
        args.append(cell)
    args.append(addr)
    paths = ctx.run(k, args)
    inside = ctx.in_region(addr, base2, size) if phase == 2 else z3.BoolVal(False)
    for q in paths:
        if q.status == "ret":
            ctx.require(q, inside, "an address is accepted only when it is inside the memory of a sandbox that is currently created")
        elif q.status == "abort":
            ctx.require(q, z3.Not(inside), "aborts only when the address is not inside the live sandbox")
            w = [e for e in q.events if e[0] in ("st", "st-bulk")]
            if w:
                ctx.fail(q, "sandbox memory was written although the address was refused")
    ctx.only(paths, "ret", "abort")
    if phase == 2:
        ctx.expect(paths, ret=1, abort=1)
    else:
        ctx.expect(paths, abort=1)


def check_bm(ctx, k):
    size = 1 << 32
    b0 = ctx.sandbox_base(32, "b0", aligned=False)
    b1 = ctx.sandbox_base(32, "b1", aligned=False)
    ctx.assume(z3.Or(z3.UGE(b0, b1 + BV(1 << 32, 64)), z3.UGE(b1, b0 + BV(1 << 32, 64))))
    first = ctx.sym("first", 32)
    ctx.assume(z3.ULE(first, 1))
    addr = ctx.sym("addr", 64)
    inside = ctx.in_region(addr, b0, size)
    args = [b0, b1, first]
    if k == "k_bm_assignvol":
        cell = ctx.sym("cell", 64)
        ctx.assume(z3.UGE(cell, b0), z3.ULE(cell - b0, BV(size - 4, 64)))
        args.append(cell)
    args.append(addr)
    paths = ctx.run(k, args)
    for q in paths:
        if q.status == "ret":
            if k == "k_bm_assignvol":
                st = z3.Concat(*[z3.Select(q.mem, cell + BV(i, 64)) for i in reversed(range(4))])
                ctx.require(q, z3.And(inside, zext(st, 64) == addr - b0), "accepted only inside sandbox 0 (not the other live sandbox); representation relative to sandbox 0")
            else:
                ctx.require(q, z3.And(inside, q.ret == addr), "accepted only inside sandbox 0 (not the other live sandbox)")
        elif q.status == "abort":
            ctx.require(q, z3.Not(inside), "aborts only when the address is outside sandbox 0")
    ctx.only(paths, "ret", "abort")
    ctx.expect(paths, ret=2, abort=2)


def check_mi(ctx, k, log=32):
    """MD* assigned where an MB* is stored: the MB subobject lives 56 bytes into the MD object"""
    base = ctx.sandbox_base(log)
    size = 1 << log
    addr = ctx.sym("addr", 64)
    stored = addr + 56
    ok = z3.And(ctx.in_region(addr, base, size), ctx.in_region(stored, base, size))
    if k == "k_assign_mi":
        paths = ctx.run(k, [base, addr])
    else:
        cell = ctx.sym("cell", 64)
        ctx.assume(z3.UGE(cell, base), z3.ULE(cell - base, BV(size - 4, 64)))
        paths = ctx.run(k, [base, cell, addr])
    for q in paths:
        if q.status == "ret":
            if k == "k_assign_mi":
                ctx.require(q, z3.And(q.ret == stored, ctx.in_region(q.ret, base, size)), "the address that ends up in the tainted pointer (after the C++ pointer conversion) is inside the sandbox")
            else:
                st = z3.Concat(*[z3.Select(q.mem, cell + BV(i, 64)) for i in reversed(range(4))])
                ctx.require(q, z3.And(ctx.in_region(stored, base, size), zext(st, 64) == stored - base),
                            "the representation stored in the cell designates the converted (base-subobject) address, and that address is inside the sandbox")
        elif q.status == "abort":
            ctx.require(q, z3.Not(ok), "aborts only when the object or its base subobject is outside the sandbox")
    ctx.only(paths, "ret", "abort")
    ctx.expect(paths, ret=1, abort=1)


SHAPES = ["k_shape_copyinit", "k_shape_directinit", "k_shape_twoarg", "k_shape_assign", "k_shape_vol_assign", "k_shape_vol_stdarray",
          "k_shape_vol_carray", "k_shape_vol_fnptr", "k_shape_constptr_direct", "k_shape_constptr_copy", "k_shape_constptr_brace"]


def check_shape(ctx, k, pb):
    """only reached when the tree under test accepts the shape at compile time"""
    base = ctx.sandbox_base(32)
    size = 1 << 32
    addr = ctx.sym("addr", 64)
    inside = ctx.in_region(addr, base, size)
    if "_vol_" in k:
        cell = ctx.sym("cell", 64)
        n = 2 if "array" in k else 1
        ctx.assume(z3.UGE(cell, base), z3.ULE(cell - base, BV(size - n * pb, 64)))
        paths = ctx.run(k, [base, cell, addr])
        for q in paths:
            if q.status == "ret":
                cells = [z3.Concat(*[z3.Select(q.mem, cell + BV(j * pb + i, 64)) for i in reversed(range(pb))]) for j in range(n)]
                ctx.require(q, z3.And(inside, *[zext(c, 64) == addr - base for c in cells]),
                            "a raw application pointer reaches sandbox memory only if it lies inside the sandbox, as its representation")
    else:
        paths = ctx.run(k, [base, addr])
        for q in paths:
            if q.status == "ret":
                ctx.require(q, z3.And(inside, q.ret == addr), "a raw application pointer becomes tainted only if it lies inside the sandbox")
    ctx.only(paths, "ret", "abort")
    ctx.expect(paths)
    ctx.expected_ok = True


def check_shape_ctl(ctx, k):
    base = ctx.sandbox_base(32)
    p = ctx.sym("p", 64)
    ctx.assume(ctx.in_region(p, base, 1 << 32))
    if k == "k_ctl_vol":
        cell = ctx.sym("cell", 64)
        ctx.assume(z3.UGE(cell, base), z3.ULE(cell - base, BV((1 << 32) - 16, 64)))
        paths = ctx.run(k, [base, cell, p])
    else:
        paths = ctx.run(k, [base, p])
    for q in paths:
        if q.status == "ret" and k in ("k_ctl_init", "k_ctl_constptr"):
            ctx.require(q, q.ret == p, "control: tainted-from-tainted initialisation and assignment keep the pointer")
    ctx.only(paths, "ret")
    ctx.expect(paths, ret=1)


def check_small(ctx, k):
    """backend whose is_in_same_sandbox is a coarse 4 GiB window while only 64 KiB are sandbox memory:
    the entry points must use the exact membership test"""
    base = ctx.sandbox_base(32)
    mem = 1 << 16
    addr = ctx.sym("addr", 64)
    inside = ctx.in_region(addr, base, mem)
    args = [base, addr]
    if k == "k_small_assignvol":
        cell = ctx.sym("cell", 64)
        ctx.assume(z3.UGE(cell, base), z3.ULE(cell - base, BV(mem - 4, 64)))
        args = [base, cell, addr]
    paths = ctx.run(k, args)
    for q in paths:
        if q.status == "ret":
            ctx.require(q, inside, "accepted only when the address lies inside the sandbox's memory, not merely inside its address window")
        elif q.status == "abort":
            ctx.require(q, z3.Not(inside), "aborts only for an address outside the sandbox's memory")
    ctx.only(paths, "ret", "abort")
    ctx.expect(paths, ret=1, abort=1)


def jobs(tier, seed):
    out = []
    backends = [("B32", 32)] + ([("B16", 16)] if tier == "thorough" else [])
    for sbx, log in backends:
        for gi, grp in enumerate(C.chunks(TAGS, 3)):
            src = '#include "verif_sandbox.hpp"\nusing S = %s;\n#include "C02_kernels.inc"\n' % sbx
            chks = [dict(name="%s %s %s" % (sbx, kind, tag), fn=check_entry, kw=dict(kind=kind, tag=tag, log=log))
                    for tag in grp for kind in ("assign", "accept", "assignvol", "assignslot")]
            out.append(Job("C02_%s_%d" % (sbx, gi), src, chks))
    # B32Z: guard zones that are neither sandbox nor application memory - only "inside this sandbox" admits an address
    zsrc = '#include "verif_sandbox.hpp"\nusing S = B32Z;\n#include "C02_kernels.inc"\n'
    out.append(Job("C02_B32Z", zsrc, [dict(name="B32Z %s %s (guard zones)" % (kind, tag), fn=check_entry, kw=dict(kind=kind, tag=tag, log=32))
                                      for tag in ("int", "char") for kind in ("assign", "accept", "assignvol")], native=False))
    out.append(Job("C02_B32_mi", '#include "verif_sandbox.hpp"\nusing S = B32;\n#include "C02_kernels.inc"\n',
                   [dict(name="B32 " + k, fn=check_mi, kw=dict(k=k)) for k in ("k_assign_mi", "k_assignvol_mi")], native=False))
    for sbx, pb in (("B32", 4), ("B64", 8)):
        shsrc = '#include "verif_sandbox.hpp"\nusing S = %s;\n#include "C02_shapes.inc"\n' % sbx
        out.append(Job("C02_%s_shapes" % sbx, shsrc, [dict(name="%s rejected shape %s" % (sbx, k), fn=check_shape, kw=dict(k=k, pb=pb), optional=True) for k in SHAPES] +
                       [dict(name="%s control %s" % (sbx, k), fn=check_shape_ctl, kw=dict(k=k)) for k in ("k_ctl_init", "k_ctl_vol", "k_ctl_constptr")], native=False))
    # a third way in: copy_memory_or_grant_access on a backend that can refuse a grant and then hands back the source pointer
    from specs import C10
    gsrc = '#include "verif_sandbox.hpp"\nusing S = B32G;\n#include "C10_kernels.inc"\n'
    out.append(Job("C02_B32G_grant", gsrc, [dict(name="B32G grant %s: a refused grant never wraps the raw buffer address" % tag, fn=C10.check_grant, kw=dict(tag=tag, esz=e, grantable=True))
                                            for tag, e in (("char", 1), ("short", 2))], native=False))
    from specs import C12
    out.append(Job("C02_BM_cb_stored", '#include "C12_bm.inc"\n', [dict(name="BM callback owner stored into sandbox memory: the slot holds the entry point, not the application address",
                                                                      fn=C12.check_bm_stored, unwind=200)], native=False))
    lsrc = '#include "verif_sandbox.hpp"\nusing S = B32L;\n#include "C02_life.inc"\n'
    for k in ("k_life_accept", "k_life_assign", "k_life_assignvol"):
        out.append(Job("C02_B32L_" + k, lsrc, [dict(name="B32L %s phase=%d" % (k, ph), fn=check_life, kw=dict(k=k, phase=ph)) for ph in (0, 1, 2)], native=False))
    ssrc = '#include "verif_sandbox.hpp"\nusing S = B32S;\n#include "C03_small.inc"\n'
    out.append(Job("C02_B32S", ssrc, [dict(name="B32S " + k, fn=check_small, kw=dict(k=k)) for k in ("k_small_accept", "k_small_assign", "k_small_assignvol")], native=False))
    for k in ("k_bm_assign", "k_bm_accept", "k_bm_assignvol"):
        out.append(Job("C02_BM_" + k, '#include "C02_bm.inc"\n', [dict(name="BM " + k, fn=check_bm, kw=dict(k=k))], native=False))
    return out
