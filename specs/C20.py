"""C20 - opaque wrappers and sandbox casts preserve bits, designation and taint."""
import z3
from specs.common import *  # noqa: F401,F403
from specs import common as C

META = {
    "level": "model_checking",
    "bounds": {"quick": "to_opaque/from_opaque for 12 scalar/pointer types (all bit patterns), int[3] and a 24-byte struct (all bytes symbolic); opaque vs tainted "
                        "argument of an invocation (long, pointer) on B32; reinterpret/const/static casts on tainted and tainted_volatile sources, 7 integer pairs + enum",
               "thorough": "same"},
    "outside": "opaque values returned from callbacks are covered by C12; casts between types not listed",
    "assumptions": [],
}
OPQ = {"alias_long": 64, "alias_ptr": 64, "schar": 8, "bool": 8, "short": 16, "uint": 32, "long": 64, "ullong": 64, "enum": 32, "float": 32, "double": 64, "intp": 64, "voidp": 64, "vs24p": 64}
SC_TYPES = [C.SCHAR, C.UCHAR, C.SHORT, C.USHORT, C.INT, C.UINT, C.LONG, C.ULONG, C.LLONG, C.ULLONG]
SC = {"%s_%s" % (a.tag, b.tag): (a, b) for a in SC_TYPES for b in SC_TYPES}     # every ordered (target, source) pair


def check_opq(ctx, tag):
    bits = ctx.sym("bits", 64)
    w = OPQ[tag]
    paths = ctx.run("k_opq_" + tag, [bits])
    for q in paths:
        if q.status == "ret":
            ctx.require(q, z3.Extract(w - 1, 0, q.ret) == z3.Extract(w - 1, 0, bits), "from_opaque(to_opaque(x)) has the same bits as x")
    ctx.only(paths, "ret")
    ctx.expect(paths, ret=1)
    ctx.validate("k_opq_" + tag, [[v] for v in (0, 1, (1 << w) - 1, 0x8000000000000001 & ((1 << w) - 1))])


def check_opq_buf(ctx, k, n):
    src = ctx.buffer(n, name="in")
    dst = ctx.buffer(n, name="out")
    paths = ctx.run(k, [src, dst])
    for q in paths:
        if q.status == "ret":
            ctx.require(q, z3.And(*[ctx.eng.cbyte(q, dst.addr + i) == src.init[i] for i in range(n)]), "byte image of the round-tripped object equals the source")
            if [e for e in q.events if e[0] == "app-oob"]:
                ctx.fail(q, "out-of-object access")
    ctx.only(paths, "ret")
    ctx.expect(paths, ret=1)


def check_inv(ctx, k):
    base = ctx.sandbox_base(32)
    size = 1 << 32
    isptr = k.endswith("ptr")
    v = ctx.sym("v", 64)
    if isptr:
        ctx.assume(z3.Or(v == 0, ctx.in_region(v, base, size)))
    paths = ctx.run(k, [base, v])
    for q in paths:
        lg = [e for e in (q.user.get("log") or []) if e[0] == 9]
        env = [e for e in (q.user.get("env") or []) if e[0] == 9]
        if isptr:
            if q.status == "ret":
                rep = z3.If(v == 0, BV(0, 64), zext(z3.Extract(31, 0, v - base), 64))
                g = zext(z3.Extract(31, 0, env[0][1]), 64)
                ctx.require(q, z3.And(len(lg) == 1, lg[0][1] == rep, q.ret == z3.If(g == 0, BV(0, 64), base + g)),
                            "guest sees the pointer's representation exactly once; result converted back")
        else:
            fits = z3.And(sext(v, 128) >= -(1 << 31), sext(v, 128) < (1 << 31))
            if q.status == "ret":
                ctx.require(q, z3.And(fits, len(lg) == 1, lg[0][1] == v, q.ret == sext(z3.Extract(31, 0, env[0][1]), 64)),
                            "guest sees exactly the value, once; result converted back and tainted")
            elif q.status == "abort":
                ctx.require(q, z3.And(z3.Not(fits), len(lg) == 0), "aborts before the call only when the value is not representable")
    ctx.only(paths, "ret", "abort")
    ctx.expect(paths, ret=1)
    b0 = 0x300000000
    vals = [0, b0 + 5, b0 + 0xFFFFFFFF] if isptr else [0, 5, 0x7FFFFFFF, 0x80000000, (1 << 64) - 1, 0x100000005]
    ctx.validate(k, [[b0, x] for x in vals], env=[0x1234], base=None)


def check_ptrcast(ctx, k, pb=4):
    base = ctx.sandbox_base(32)
    size = 1 << 32
    x = ctx.sym("x", 64)
    mem0 = ctx.eng.initial_memory()
    if k.endswith("_tv"):
        ctx.assume(z3.UGE(x, base), z3.ULE(x - base, BV(size - pb, 64)))
        raw = zext(z3.Concat(*[z3.Select(mem0, x + BV(i, 64)) for i in reversed(range(pb))]), 64)
        if pb == 8:
            raw = raw & BV(size - 1, 64)      # B64M masks the representation into the region when it translates
        want = z3.If(raw == 0, BV(0, 64), base + raw)
        if pb == 8:
            full = z3.Concat(*[z3.Select(mem0, x + BV(i, 64)) for i in reversed(range(8))])
            want = z3.If(full == 0, BV(0, 64), base + raw)
    else:
        ctx.assume(z3.Or(x == 0, ctx.in_region(x, base, size)))
        want = x
    paths = ctx.run(k, [base, x])
    for q in paths:
        if q.status == "ret":
            ctx.require(q, q.ret == want, "the cast leaves the designated sandbox address unchanged")
    ctx.only(paths, "ret")
    ctx.expect(paths, ret=1)
    b0 = 0x300000000
    if pb != 4:
        return
    if k.endswith("_tv"):
        ctx.validate(k, [[b0, b0 + 0x40]], mem={b0 + 0x40 + i: 0x31 + i for i in range(4)}, base=b0)
    else:
        ctx.validate(k, [[b0, 0], [b0, b0 + 9]], base=None)


def check_sc(ctx, tag, vol):
    to, frm = SC[tag]
    if vol:
        base = ctx.sandbox_base(32)
        cell = ctx.sym("cell", 64)
        ctx.assume(z3.UGE(cell, base), z3.ULE(cell - base, BV((1 << 32) - 8, 64)))
        gb = frm.gbits // 8
        mem0 = ctx.eng.initial_memory()
        raw = z3.Concat(*[z3.Select(mem0, cell + BV(i, 64)) for i in reversed(range(gb))]) if gb > 1 else z3.Select(mem0, cell)
        V = ext(raw, frm.signed)
        paths = ctx.run("k_sctv_" + tag, [base, cell])
    else:
        v = ctx.sym("v", frm.bits)
        V = ext(v, frm.signed)
        paths = ctx.run("k_sc_" + tag, [v])
    for q in paths:
        if q.status == "ret":
            ctx.require(q, z3.Extract(to.bits - 1, 0, q.ret) == z3.Extract(to.bits - 1, 0, V), "value equals static_cast<To>(underlying value)")
    ctx.only(paths, "ret")
    ctx.expect(paths, ret=1)
    if not vol:
        ctx.validate("k_sc_" + tag, [[x] for x in C.boundary_values(frm.bits)[:16]])


SCF = {"f_i32": (32, 4), "f_u32": (32, 4), "d_i64": (64, 8), "d_u64": (64, 8), "f_u64": (64, 8), "d_i32": (32, 4), "f_d": (64, 8)}


def check_scf(ctx, tag, vol):
    from specs.C16 import cross
    bits, gb = SCF[tag]
    if vol:
        base = ctx.sandbox_base(32)
        cell = ctx.sym("cell", 64)
        ctx.assume(z3.UGE(cell, base), z3.ULE(cell - base, BV((1 << 32) - 8, 64)))
        mem0 = ctx.eng.initial_memory()
        v = z3.Concat(*[z3.Select(mem0, cell + BV(i, 64)) for i in reversed(range(gb))])
        kp = ctx.run("k_scftv_" + tag, [base, cell])
    else:
        v = ctx.sym("v", bits)
        kp = ctx.run("k_scf_" + tag, [v])
    rp = ctx.run("r_scf_" + tag, [v])
    cross(ctx, kp, rp, "sandbox_static_cast to a floating-point type yields exactly static_cast<To>(value), rounding included",
          lambda p, q: (p.ret == q.ret) if (p.status == "ret" and q.status == "ret") else z3.BoolVal(False))
    ctx.expect(kp, ret=1)
    if not vol:
        vals = [0, 1, (1 << 24) + 1, (1 << bits) - 1, (1 << (bits - 1)) - 1, (1 << (bits - 1)), (1 << (bits - 1)) - 64] + ([(1 << 53) + 1, (1 << 63) - 512] if bits == 64 else [])
        ctx.validate("k_scf_" + tag, [[x & ((1 << bits) - 1)] for x in vals])
        ctx.validate("r_scf_" + tag, [[x & ((1 << bits) - 1)] for x in vals])


def check_enum(ctx, k):
    v = ctx.sym("v", 32)
    paths = ctx.run(k, [v])
    for q in paths:
        if q.status == "ret":
            ctx.require(q, z3.Extract(31, 0, q.ret) == v, "enum <-> underlying integer cast keeps the value")
    ctx.only(paths, "ret")
    ctx.expect(paths, ret=1)


def check_cb_fp(ctx):
    ctx.eng.max_strlen = 64
    opq = ctx.sym("opaque", 32)
    a = ctx.sym("a", 64)
    b = ctx.sym("b", 32)
    c = ctx.sym("c", 32)
    ctx.assume(z3.ULE(opq, 1))
    paths = ctx.run("k_cb_opaque_fp", [opq, a, b, c])
    for q in paths:
        if q.status == "ret":
            lg = [e for e in (q.user.get("log") or []) if e[0] == 20]
            env = [v for (t, v) in (q.user.get("env") or []) if t == 21]
            bvx = lambda v: v if not isinstance(v, int) else BV(v, 64)
            ctx.require(q, z3.And(z3.BoolVal(len(lg) == 1 and len(env) == 1), bvx(lg[0][1]) == a, bvx(lg[0][2]) == sext(b, 64), z3.Extract(31, 0, bvx(lg[0][3])) == c, q.ret == env[0])
                        if lg and env else z3.BoolVal(False),
                        "a callback declared with opaque parameters/result receives and returns exactly the bits the tainted-typed callback does")
        else:
            ctx.fail(q, "callback with floating-point wrappers did not run normally (%s: %s)" % (q.status, q.info))
    ctx.expect(paths, ret=2)


def check_cb_struct(ctx):
    ctx.eng.max_strlen = 64
    opq = ctx.sym("opaque", 32)
    big = ctx.sym("big", 32)
    a = ctx.sym("a", 32)
    b = ctx.sym("b", 32)
    ctx.assume(z3.ULE(opq, 1), z3.ULE(big, 1))
    paths = ctx.run("k_cb_opaque_struct", [opq, big, a, b])
    for q in paths:
        if q.status != "ret":
            ctx.fail(q, "a callback taking and returning a struct by value did not run normally (%s: %s)" % (q.status, q.info))
            continue
        r, m = ctx.eng.check_sat(q.pc)
        isbig = mval(m, big) == 1
        lg = [e for e in (q.user.get("log") or []) if e[0] == 20]
        env = [v for (t, v) in (q.user.get("env") or []) if t == 21]
        bvx = lambda v: v if not isinstance(v, int) else BV(v, 64)
        if not (len(lg) == 1 and len(env) == 1):
            ctx.fail(q, "the struct callback ran %d times" % len(lg))
            continue
        want = (z3.Extract(55, 0, env[0]) == z3.Extract(55, 0, q.ret)) if isbig else (q.ret == z3.Concat(a, z3.Extract(31, 0, env[0])))
        if isbig:
            want = z3.And(z3.Extract(63, 56, q.ret) ^ z3.Extract(63, 56, env[0]) == 7, want)
        ctx.require(q, z3.And(bvx(lg[0][1]) == sext(a, 64), bvx(lg[0][2]) == sext(b, 64), want),
                    "a callback declared with an opaque struct parameter/result receives and returns exactly the fields the tainted-typed callback does")
    ctx.expect(paths, ret=4)


def check_bm_after_dead_cast(ctx):
    size = 1 << 32
    bx = ctx.sandbox_base(32, "bx", aligned=False)
    by = ctx.sandbox_base(32, "by", aligned=False)
    cellx = ctx.sym("cellx", 64)
    celly = ctx.sym("celly", 64)
    how = ctx.sym("how", 32)
    ctx.assume(z3.ULE(how, 2))
    ctx.assume(z3.UGE(cellx, bx), z3.ULE(cellx - bx, BV(size - 4, 64)), z3.UGE(celly, by), z3.ULE(celly - by, BV(size - 4, 64)))
    mem0 = ctx.eng.initial_memory()
    rep = z3.Concat(*[z3.Select(mem0, celly + BV(i, 64)) for i in reversed(range(4))])
    paths = ctx.run("k_bm_after_dead_cast", [bx, by, cellx, celly, how])
    for q in paths:
        if q.status == "ret":
            lg = [e for e in q.user["log"] if e[0] == 1][0]
            now = lg[1] if not isinstance(lg[1], int) else BV(lg[1], 64)
            ctx.require(q, z3.And(q.ret == z3.If(rep == 0, BV(0, 64), by + zext(rep, 64)), now == zext(rep, 64)),
                        "a cast of a sandbox-resident pointer yields the designated value of the live sandbox (a destroyed sandbox object is never consulted) and leaves the cell unchanged")
    ctx.only(paths, "ret", "abort")
    ctx.expect(paths, ret=3)


def jobs(tier, seed):
    src = '#include "verif_sandbox.hpp"\nusing S = B32;\n#include "C20_kernels.inc"\n'
    items = [dict(name="opaque roundtrip " + t, fn=check_opq, kw=dict(tag=t)) for t in OPQ]
    items += [dict(name="opaque roundtrip int[3]", fn=check_opq_buf, kw=dict(k="k_opq_arr", n=12)),
              dict(name="opaque roundtrip struct", fn=check_opq_buf, kw=dict(k="k_opq_struct", n=24))]
    items += [dict(name="invoke " + k, fn=check_inv, kw=dict(k=k)) for k in ("k_inv_tainted_long", "k_inv_opaque_long", "k_inv_tainted_ptr", "k_inv_opaque_ptr")]
    items += [dict(name="cast " + k, fn=check_ptrcast, kw=dict(k=k)) for k in ("k_rc_t", "k_rc_tv", "k_cc_t", "k_cc_tv", "k_sc_ptr_t", "k_sc_ptr_tv")]
    items += [dict(name="static_cast " + k, fn=check_enum, kw=dict(k=k)) for k in ("k_sc_enum_from_uint", "k_sc_uint_from_enum")]
    out = [Job("C20_%d" % i, src, items[i::6]) for i in range(6)]
    # host-width, non-identity pointer representation: casts of sandbox-resident pointers must still translate them
    src64 = '#include "verif_sandbox.hpp"\nusing S = B64M;\n#include "C20_kernels.inc"\n'
    out.append(Job("C20_B64M_casts", src64, [dict(name="B64M cast " + k, fn=check_ptrcast, kw=dict(k=k, pb=8)) for k in ("k_rc_t", "k_rc_tv", "k_cc_t", "k_cc_tv", "k_sc_ptr_t", "k_sc_ptr_tv")], native=False))
    out.append(Job("C20_noop_cb_fp", '#include "C20_noop.inc"\n', [dict(name="noop callback with opaque double/int/float", fn=check_cb_fp, unwind=300),
                                                                     dict(name="noop callback with opaque structs by value", fn=check_cb_struct, unwind=300)], flags=["-D_GLIBCXX_EXTERN_TEMPLATE=0"]))
    from specs import C03
    out.append(Job("C20_BM_after_dead_cast", '#include "C04_bm.inc"\n', [dict(name="BM casts of a sandbox-resident pointer after another sandbox was destroyed", fn=check_bm_after_dead_cast)],
                   unwind=200, native=False))
    for k in ("k_bm_cast_fnptrptr", "k_bm_scast_fnptrptr"):
        out.append(Job("C20_BM_" + k, '#include "C03_bm.inc"\n', [dict(name="BM cast of a sandbox-resident pointer to a function pointer " + k, fn=C03.check_bm_cell, kw=dict(k=k))], native=False))
    out.append(Job("C20_sc_float", src + '#include "C20_float.inc"\n',
                   [dict(name="static_cast to floating point %s %s" % (t, "tv" if vol else "t"), fn=check_scf, kw=dict(tag=t, vol=vol)) for t in SCF for vol in (False, True) if not (vol and t == "f_d")]))
    for to in SC_TYPES:
        tags = ["%s_%s" % (to.tag, f.tag) for f in SC_TYPES]
        ssrc = src + "".join("SC(%s, %s, %s)\n" % (t, SC[t][0].cxx, SC[t][1].cxx) for t in tags)
        out.append(Job("C20_sc_" + to.tag, ssrc, [dict(name="static_cast %s %s" % (t, "tv" if vol else "t"), fn=check_sc, kw=dict(tag=t, vol=vol)) for t in tags for vol in (False, True)]))
    return out
