"""Path-enumerating symbolic executor for the LLVM-IR subset parsed by llir.py.

Every first-class integer/pointer value is a z3 bit-vector, memory is one flat
z3 array BV64 -> BV8 (little endian).  Branches on symbolic conditions fork the
state after a feasibility query; loops are bounded by a per-path block visit
counter (exceeding it ends the path with status 'unwind' which callers must
treat as inconclusive, never as success).
"""
import time
import z3
from llir import (IntT, FloatT, VoidT, PtrT, ArrT, VecT, StructT, NamedT, FuncT, Const, Reg,
                  Layout, ParseError)

BV = z3.BitVecVal
GLOBAL_BASE = 0x10000000
FUNC_BASE = 0x400000
STACK_BASE = 0x7FFD00000000
HEAP_BASE = 0x555500000000
HEAP_END = 0x555600000000
REDZONE = 64


class Unsupported(Exception):
    pass


def is_conc(e):
    return z3.is_bv_value(e)


def simp(e):
    return z3.simplify(e)


_NONLINEAR = {z3.Z3_OP_BMUL: "mul", z3.Z3_OP_BSDIV: "sdiv", z3.Z3_OP_BUDIV: "udiv", z3.Z3_OP_BSREM: "srem", z3.Z3_OP_BUREM: "urem",
              z3.Z3_OP_BSDIV_I: "sdiv", z3.Z3_OP_BUDIV_I: "udiv", z3.Z3_OP_BSREM_I: "srem", z3.Z3_OP_BUREM_I: "urem"}


def abstract_nonlinear(conds):
    """Replace every bvmul/div/rem whose operands are both non-constant by an application of an uninterpreted function
    (one per operator and width). Returns the rewritten list, or None when nothing was replaced. The simplifier is run
    first so that syntactically different spellings of the same product get a chance to meet."""
    cache = {}
    ufs = {}
    hit = [False]
    apps = []
    divapps = []

    def uf(nm, w):
        f = ufs.get(nm)
        if f is None:
            f = ufs[nm] = z3.Function("uf_" + nm, z3.BitVecSort(w), z3.BitVecSort(w), z3.BitVecSort(w))
        return f

    def walk(e):
        k = e.get_id()
        if k in cache:
            return cache[k]
        if not z3.is_app(e) or e.num_args() == 0:
            cache[k] = e
            return e
        ch = [walk(c) for c in e.children()]
        kind = e.decl().kind()
        r = None
        if kind in _NONLINEAR and z3.is_bv(e):
            nonconst = [c for c in ch if not z3.is_bv_value(c)]
            if len(nonconst) >= 2 and len(ch) == 2:
                w = e.size()
                nm = "%s%d" % (_NONLINEAR[kind], w)
                a, b = ch
                r = uf(nm, w)(a, b)
                if kind == z3.Z3_OP_BMUL:
                    apps.append((w, a, b))
                elif _NONLINEAR[kind] in ("udiv", "urem"):
                    divapps.append((_NONLINEAR[kind], w, a, b))
                hit[0] = True
        if r is None:
            if any(c.get_id() != o.get_id() for c, o in zip(ch, e.children())):
                arr = (z3.Ast * len(ch))(*[c.as_ast() for c in ch])
                r = z3.z3._to_expr_ref(z3.Z3_mk_app(e.ctx.ref(), e.decl().ast, len(ch), arr), e.ctx)
            else:
                r = e
        cache[k] = r
        return r

    out = [walk(simp(c)) for c in conds]
    if not hit[0]:
        return None
    # sound facts about multiplication that the abstraction would otherwise forget: it is commutative, and the low k bits
    # of a product are the product of the low k bits (compilers narrow (int)((long)a * b) to a 32-bit multiply)
    def zext_src(x):
        """x == zero_extend(y) syntactically: return y"""
        if z3.is_app(x):
            k = x.decl().kind()
            if k == z3.Z3_OP_ZERO_EXT:
                return x.arg(0)
            if k == z3.Z3_OP_CONCAT and x.num_args() >= 2 and z3.is_bv_value(x.arg(0)) and x.arg(0).as_long() == 0:
                rest = [x.arg(i) for i in range(1, x.num_args())]
                return rest[0] if len(rest) == 1 else z3.Concat(*rest)
        return None
    # unsigned division / remainder of two zero-extended k-bit operands is the zero-extended k-bit result (LLVM narrows these)
    for (nm, w, a, b) in list(divapps):
        ya, yb = zext_src(a), zext_src(b)
        if ya is not None and yb is not None:
            k = max(ya.size(), yb.size())
            if k < w:
                ya2 = ya if ya.size() == k else z3.ZeroExt(k - ya.size(), ya)
                yb2 = yb if yb.size() == k else z3.ZeroExt(k - yb.size(), yb)
                out.append(uf("%s%d" % (nm, w), w)(a, b) == z3.ZeroExt(w - k, uf("%s%d" % (nm, k), k)(ya2, yb2)))
    widths = sorted(set(w for w, _, _ in apps))
    seen = set()
    for w, a, b in list(apps):
        for w2 in widths:
            if w2 < w:
                lo = lambda x: simp(z3.Extract(w2 - 1, 0, x))
                out.append(z3.Extract(w2 - 1, 0, uf("mul%d" % w, w)(a, b)) == uf("mul%d" % w2, w2)(lo(a), lo(b)))
                apps.append((w2, lo(a), lo(b)))
    for w, a, b in apps:
        key = (w, a.get_id(), b.get_id())
        if key in seen:
            continue
        seen.add(key)
        f = uf("mul%d" % w, w)
        out.append(f(a, b) == f(b, a))
    return out


class Frame:
    __slots__ = ("fn", "block", "prev", "ip", "regs", "dst", "unwind_to")

    def __init__(self, fn, dst):
        self.fn = fn
        self.block = fn.order[0]
        self.prev = None
        self.ip = 0
        self.regs = {}
        self.dst = dst
        self.unwind_to = None

    def copy(self):
        f = Frame.__new__(Frame)
        f.fn = self.fn
        f.block = self.block
        f.prev = self.prev
        f.ip = self.ip
        f.regs = dict(self.regs)
        f.dst = self.dst
        f.unwind_to = self.unwind_to
        return f


class State:
    def __init__(self):
        self.frames = []
        self.mem = None
        self.cmem = {}
        self.pc = []
        self.events = []
        self.visits = {}
        self.heap_next = HEAP_BASE + REDZONE
        self.stack_next = STACK_BASE
        self.allocs = []  # (addr:int, size:int, kind, live)
        self.status = "run"
        self.info = None
        self.ret = None
        self.fresh = 0
        self.user = {}
        self.exc = None

    def copy(self):
        s = State.__new__(State)
        s.frames = [f.copy() for f in self.frames]
        s.mem = self.mem
        s.cmem = dict(self.cmem)
        s.pc = list(self.pc)
        s.events = list(self.events)
        s.visits = dict(self.visits)
        s.heap_next = self.heap_next
        s.stack_next = self.stack_next
        s.allocs = list(self.allocs)
        s.status = self.status
        s.info = self.info
        s.ret = self.ret
        s.fresh = self.fresh
        s.user = {k: (list(v) if isinstance(v, list) else (dict(v) if isinstance(v, dict) else v)) for k, v in self.user.items()}
        s.exc = self.exc
        return s


class Engine:
    def __init__(self, module, unwind=64, max_paths=20000, timeout_ms=60000):
        self.m = module
        self.lay = Layout(module)
        self.unwind = unwind
        self.max_paths = max_paths
        self.timeout_ms = timeout_ms
        self.queries = 0
        self.solver_time = 0.0
        self.gaddr = {}
        self.gsize = {}
        self.faddr = {}
        self.addr2f = {}
        self.stubs = {}
        self.read_hook = None      # (state, addr, nbytes) -> BV or None
        self.access_hook = None    # (state, kind, addr, nbytes) -> None
        self.fresh_ctr = 0
        self.insn_count = 0
        self.init_bytes = None
        self._layout_globals()
        self._install_default_stubs()

    # ------------------------------------------------------------ setup
    def _layout_globals(self):
        a = GLOBAL_BASE
        for name, g in self.m.globals.items():
            try:
                size, al = self.lay.size_align(g.ty)
            except ParseError:
                size, al = 8, 8
            size = max(size, 1)
            al = max(al, 8)
            a = (a + al - 1) // al * al
            self.gaddr[name] = a
            self.gsize[name] = size
            a += size + 16
        f = FUNC_BASE
        names = list(self.m.funcs.keys()) + list(self.m.decls.keys())
        for name in names:
            self.faddr[name] = f
            self.addr2f[f] = name
            f += 16

    def fresh(self, name, bits):
        self.fresh_ctr += 1
        return z3.BitVec("%s!%d" % (name, self.fresh_ctr), bits)

    def initial_memory(self):
        """Symbolic-address memory (sandbox / raw region) starts fully unconstrained;
        concrete-address memory is a dict initialised from the module's global initialisers."""
        if not hasattr(self, "init_bytes") or self.init_bytes is None:
            self.init_bytes = {}
            st = State()
            st.cmem = {}
            for name, g in self.m.globals.items():
                if g.init is not None:
                    self._store_const(st, self.gaddr[name], g.ty, g.init)
            for a, v in st.cmem.items():
                if isinstance(v, int):
                    self.init_bytes[a] = v
                    continue
                v = simp(v)
                if is_conc(v):
                    self.init_bytes[a] = v.as_long()
        return z3.Array("sbxmem0", z3.BitVecSort(64), z3.BitVecSort(8))

    def _store_const(self, st, addr, ty, c):
        ty = self.lay.resolve(ty)
        if c.kind == "zero" or c.kind == "null":
            n = self.lay.size(ty)
            for i in range(n):
                st.cmem[addr + i] = BV(0, 8)
            return
        if c.kind == "undef":
            return
        if c.kind == "cstr":
            for i, b in enumerate(c.val):
                st.cmem[addr + i] = BV(b, 8)
            return
        if c.kind == "agg":
            if isinstance(ty, StructT):
                for i, (ft, fv) in enumerate(zip(ty.fields, c.val)):
                    self._store_const(st, addr + self.lay.field_offset(ty, i), ft, fv)
            elif isinstance(ty, (ArrT, VecT)):
                es = self.lay.size(ty.elem)
                for i, fv in enumerate(c.val):
                    self._store_const(st, addr + i * es, ty.elem, fv)
            return
        if isinstance(ty, (IntT, PtrT, FloatT)):
            v = self.const_value(c)
            self.store(st, BV(addr, 64), v, check=False)
            return
        raise Unsupported("global init %r" % (c,))

    # ------------------------------------------------------------ values
    def bits_of(self, ty):
        ty = self.lay.resolve(ty)
        if isinstance(ty, IntT):
            return ty.bits
        if isinstance(ty, (PtrT, FuncT)):
            return 64
        if isinstance(ty, FloatT):
            return ty.bits
        raise Unsupported("bits_of %r" % (ty,))

    def const_value(self, c):
        ty = self.lay.resolve(c.ty)
        k = c.kind
        if k == "int":
            return BV(c.val, self.bits_of(ty))
        if k == "null":
            return BV(0, 64)
        if k == "global":
            if c.val in self.gaddr:
                return BV(self.gaddr[c.val], 64)
            if c.val in self.faddr:
                return BV(self.faddr[c.val], 64)
            if c.val in self.m.aliases:
                return self.const_value(self.m.aliases[c.val])
            raise Unsupported("unknown global @" + c.val)
        if k == "undef" or k == "zero":
            if isinstance(ty, StructT):
                return [self.const_value(Const(k, f)) for f in ty.fields]
            if isinstance(ty, ArrT):
                return [self.const_value(Const(k, ty.elem)) for _ in range(ty.n)]
            return BV(0, self.bits_of(ty))
        if k == "float":
            txt = c.val
            bits = self.bits_of(ty)
            if txt.startswith("0x") and not txt[2].isalpha():
                d = int(txt, 16)  # double bit pattern
                if bits == 64:
                    return BV(d, 64)
                if bits == 32:
                    import struct
                    f = struct.unpack("<d", struct.pack("<Q", d))[0]
                    return BV(struct.unpack("<I", struct.pack("<f", f))[0], 32)
            else:
                import struct
                f = float(txt)
                if bits == 64:
                    return BV(struct.unpack("<Q", struct.pack("<d", f))[0], 64)
                if bits == 32:
                    return BV(struct.unpack("<I", struct.pack("<f", f))[0], 32)
            raise Unsupported("float const " + txt)
        if k == "agg":
            return [self.const_value(e) for e in c.val]
        if k == "cexpr":
            e = c.val
            if e[0] == "gep":
                _, bt, pv, idx = e
                base = self.const_value(pv)
                return simp(base + self.gep_offset(bt, [self.const_value(i) for i in idx]))
            if e[0] in ("bitcast", "inttoptr", "ptrtoint", "addrspacecast"):
                v = self.const_value(e[1])
                return self.resize(v, self.bits_of(e[2]), False)
            if e[0] in ("trunc", "zext", "sext"):
                v = self.const_value(e[1])
                return self.resize(v, self.bits_of(e[2]), e[0] == "sext")
            if e[0] in ("add", "sub", "mul", "and", "or", "xor", "shl", "lshr", "ashr"):
                a, b = [self.const_value(o) for o in e[2]]
                return simp(self.binop(e[0], a, b))
            raise Unsupported("cexpr " + e[0])
        raise Unsupported("const kind " + k)

    def resize(self, v, bits, signed):
        w = v.size()
        if w == bits:
            return v
        if w > bits:
            return z3.Extract(bits - 1, 0, v)
        return z3.SignExt(bits - w, v) if signed else z3.ZeroExt(bits - w, v)

    def val(self, fr, o):
        if isinstance(o, Reg):
            try:
                return fr.regs[o.name]
            except KeyError:
                raise Unsupported("undefined register %%%s in %s" % (o.name, fr.fn.name))
        return self.const_value(o)

    def gep_offset(self, base_ty, idxvals):
        """idxvals: list of z3 BVs (any width)."""
        off = BV(0, 64)
        ty = base_ty
        first = True
        for iv in idxvals:
            iv64 = self.resize(iv, 64, True)
            if first:
                off = off + iv64 * BV(self.lay.size(ty), 64)
                first = False
                continue
            ty = self.lay.resolve(ty)
            if isinstance(ty, StructT):
                if not is_conc(simp(iv64)):
                    raise Unsupported("symbolic struct index")
                i = simp(iv64).as_long()
                off = off + BV(self.lay.field_offset(ty, i), 64)
                ty = ty.fields[i]
            elif isinstance(ty, (ArrT, VecT)):
                off = off + iv64 * BV(self.lay.size(ty.elem), 64)
                ty = ty.elem
            else:
                raise Unsupported("gep into %r" % (ty,))
        return off

    def binop(self, op, a, b):
        if op == "add":
            return a + b
        if op == "sub":
            return a - b
        if op == "mul":
            return a * b
        if op == "and":
            return a & b
        if op == "or":
            return a | b
        if op == "xor":
            return a ^ b
        if op == "shl":
            return a << b
        if op == "lshr":
            return z3.LShR(a, b)
        if op == "ashr":
            return a >> b
        if op == "udiv":
            return z3.UDiv(a, b)
        if op == "sdiv":
            return a / b
        if op == "urem":
            return z3.URem(a, b)
        if op == "srem":
            return z3.SRem(a, b)
        raise Unsupported(op)

    ICMP = {
        "eq": lambda a, b: a == b, "ne": lambda a, b: a != b,
        "ugt": z3.UGT, "uge": z3.UGE, "ult": z3.ULT, "ule": z3.ULE,
        "sgt": lambda a, b: a > b, "sge": lambda a, b: a >= b,
        "slt": lambda a, b: a < b, "sle": lambda a, b: a <= b,
    }

    # ------------------------------------------------------------ memory
    def classify(self, addr):
        """concrete address -> ('stack'|'heap'|'global'|'func'|'other', ok)"""
        if STACK_BASE <= addr < STACK_BASE + (1 << 32):
            return "stack"
        if HEAP_BASE <= addr < HEAP_END:
            return "heap"
        if GLOBAL_BASE <= addr < GLOBAL_BASE + (1 << 28):
            return "global"
        return "other"

    def in_live_object(self, st, region, av, n):
        for (b, sz, k, live) in reversed(st.allocs):
            if k == region and b <= av and av + n <= b + sz:
                return live
        return False

    def check_access(self, st, kind, addr, n):
        a = simp(addr)
        if is_conc(a):
            av = a.as_long()
            region = self.classify(av)
            if region in ("heap", "stack"):
                if not self.in_live_object(st, region, av, n):
                    st.events.append(("app-oob", kind, av, n))
            elif region == "global":
                if not self.in_global(av, n):
                    st.events.append(("app-oob", kind, av, n))
            if region != "other":
                if self.access_hook:
                    self.access_hook(st, kind, a, n, region)
                return a
            if av < 0x10000:
                st.events.append(("null-deref", kind, av, n))
        if self.access_hook:
            self.access_hook(st, kind, a, n, "sym")
        if self._mentions_app_addr(a):
            # application object + symbolic offset: not a sandbox/raw-memory access
            st.events.append((kind + "@app", a, n))
        else:
            st.events.append((kind, a, n))
        return a

    def in_global(self, av, n):
        import bisect
        if not hasattr(self, "_gsorted"):
            self._gsorted = sorted((a, self.gsize[nm]) for nm, a in self.gaddr.items())
            self._gkeys = [a for a, _ in self._gsorted]
        i = bisect.bisect_right(self._gkeys, av) - 1
        if i < 0:
            return False
        b, sz = self._gsorted[i]
        return b <= av and av + n <= b + sz

    def leaves(self, e, limit=16):
        """address expression -> [(cond, int)] if it is an ite-tree over concrete values."""
        if is_conc(e):
            return [(None, e.as_long())]
        if z3.is_app(e):
            k = e.decl().kind()
            if k == z3.Z3_OP_ITE:
                c = e.arg(0)
                a = self.leaves(e.arg(1), limit)
                b = self.leaves(e.arg(2), limit)
                if a is None or b is None or len(a) + len(b) > limit:
                    return None
                out = [(c if ca is None else z3.And(c, ca), va) for ca, va in a]
                out += [(z3.Not(c) if cb is None else z3.And(z3.Not(c), cb), vb) for cb, vb in b]
                return out
            if k == z3.Z3_OP_BADD:
                acc = [(None, 0)]
                for ch in e.children():
                    l = self.leaves(ch, limit)
                    if l is None:
                        return None
                    nxt = []
                    for c1, v1 in acc:
                        for c2, v2 in l:
                            c = c1 if c2 is None else (c2 if c1 is None else z3.And(c1, c2))
                            nxt.append((c, (v1 + v2) & 0xFFFFFFFFFFFFFFFF))
                    if len(nxt) > limit:
                        return None
                    acc = nxt
                return acc
        return None

    def _mentions_app_addr(self, e, depth=0):
        if is_conc(e):
            v = e.as_long()
            return self.classify(v) != "other"
        if depth > 6 or not z3.is_app(e):
            return False
        return any(self._mentions_app_addr(c, depth + 1) for c in e.children())

    def leaves_or_enum(self, st, a):
        lv = self.leaves(a)
        if lv is not None:
            return lv
        if self._mentions_app_addr(a):
            vals = self.concretize(st, a, "app address")
            if len(vals) > 64:
                raise Unsupported("symbolic app address with >64 targets")
            return [(a == BV(v, 64), v) for v in vals]
        return None

    def check_leaves(self, st, kind, lv, n):
        for c, av in lv:
            region = self.classify(av)
            bad = False
            if region in ("heap", "stack"):
                bad = not self.in_live_object(st, region, av, n)
            elif region == "global":
                bad = not self.in_global(av, n)
            elif region == "other":
                bad = True
            if bad and (c is None or self.feasible(st, c)):
                st.events.append(("app-oob", kind, av, n))

    def cbyte(self, st, a):
        v = st.cmem.get(a)
        if v is None:
            v = self.init_bytes.get(a)
            if v is None:
                v = z3.BitVec("uninit_%x" % a, 8)
            else:
                v = BV(v, 8)
        elif isinstance(v, int):
            v = BV(v, 8)
        return v

    def load_conc(self, st, av, nbytes):
        # fast path: every byte is a known constant (kept as Python ints in cmem / init_bytes)
        val = 0
        cm, ib = st.cmem, self.init_bytes
        for i in range(nbytes):
            b = cm.get(av + i)
            if b is None:
                b = ib.get(av + i)
            if not isinstance(b, int):
                break
            val |= b << (8 * i)
        else:
            return BV(val, 8 * nbytes)
        bs = [self.cbyte(st, av + i) for i in range(nbytes)]
        if nbytes == 1:
            return bs[0]
        return simp(z3.Concat(*reversed(bs)))

    def load(self, st, addr, nbytes, check=True, kind="ld"):
        a = self.check_access(st, kind, addr, nbytes) if check else simp(addr)
        if is_conc(a) and self.classify(a.as_long()) != "other":
            return self.load_conc(st, a.as_long(), nbytes)
        lv = None if is_conc(a) else self.leaves_or_enum(st, a)
        if lv is not None:
            r = None
            if check:
                self.check_leaves(st, kind, lv, nbytes)
            for c, v in reversed(lv):
                x = self.load_conc(st, v, nbytes)
                r = x if r is None else z3.If(c, x, r)
            return simp(r)
        if self.read_hook is not None:
            r = self.read_hook(st, a, nbytes)
            if r is not None:
                return r
        bs = [z3.Select(st.mem, a + BV(i, 64)) for i in range(nbytes)]
        if nbytes == 1:
            return simp(bs[0])
        return simp(z3.Concat(*reversed(bs)))

    def store(self, st, addr, v, check=True, kind="st"):
        nbytes = (v.size() + 7) // 8
        if v.size() % 8:
            v = z3.ZeroExt(8 - v.size() % 8, v)
        a = self.check_access(st, kind, addr, nbytes) if check else simp(addr)
        if is_conc(a) and self.classify(a.as_long()) != "other":
            av = a.as_long()
            if is_conc(v):
                val = v.as_long()
                for i in range(nbytes):
                    st.cmem[av + i] = (val >> (8 * i)) & 0xFF
            else:
                for i in range(nbytes):
                    st.cmem[av + i] = simp(z3.Extract(8 * i + 7, 8 * i, v))
            return
        lv = None if is_conc(a) else self.leaves_or_enum(st, a)
        if lv is not None:
            if check:
                self.check_leaves(st, kind, lv, nbytes)
            for c, lvaddr in lv:
                for i in range(nbytes):
                    old = self.cbyte(st, lvaddr + i)
                    st.cmem[lvaddr + i] = simp(z3.If(c, z3.Extract(8 * i + 7, 8 * i, v), old))
            return
        for i in range(nbytes):
            st.mem = z3.Store(st.mem, simp(a + BV(i, 64)), simp(z3.Extract(8 * i + 7, 8 * i, v)))

    def load_typed(self, st, addr, ty, kind="ld"):
        ty = self.lay.resolve(ty)
        if isinstance(ty, StructT):
            return [self.load_typed(st, addr + BV(self.lay.field_offset(ty, i), 64), f, kind)
                    for i, f in enumerate(ty.fields)]
        if isinstance(ty, (ArrT, VecT)):
            es = self.lay.size(ty.elem)
            return [self.load_typed(st, addr + BV(i * es, 64), ty.elem, kind) for i in range(ty.n)]
        bits = self.bits_of(ty)
        n = self.lay.size(ty) if not isinstance(ty, IntT) else (bits + 7) // 8
        v = self.load(st, addr, n, kind=kind)
        return self.resize(v, bits, False)

    def store_typed(self, st, addr, ty, v, kind="st"):
        ty = self.lay.resolve(ty)
        if isinstance(ty, StructT):
            for i, f in enumerate(ty.fields):
                self.store_typed(st, addr + BV(self.lay.field_offset(ty, i), 64), f, v[i], kind)
            return
        if isinstance(ty, (ArrT, VecT)):
            es = self.lay.size(ty.elem)
            for i in range(ty.n):
                self.store_typed(st, addr + BV(i * es, 64), ty.elem, v[i], kind)
            return
        self.store(st, addr, v, kind=kind)

    def alloca(self, st, size, align=16):
        a = (st.stack_next + align - 1) // align * align
        st.stack_next = a + size + 16
        st.allocs.append((a, size, "stack", True))
        return a

    def malloc(self, st, size):
        a = (st.heap_next + 15) // 16 * 16
        st.heap_next = a + size + REDZONE
        st.allocs.append((a, size, "heap", True))
        return a

    # ------------------------------------------------------------ solver
    def feasible(self, st, cond):
        c = simp(cond)
        if z3.is_true(c):
            return True
        if z3.is_false(c):
            return False
        r, _ = self.check_sat(st.pc + [c], recheck=False)
        if r == "unknown":
            # undecided branch condition: explore the branch. This is sound for verification (an infeasible path only adds
            # obligations whose own queries are then undecided or unsat) and is reported through the witness queries.
            self.undecided_branches = getattr(self, "undecided_branches", 0) + 1
            return True
        return r == "sat"

    def _fresh_check(self, conds):
        # a fresh non-incremental solver per query: z3 then uses its tactic pipeline
        # (simplify + bit-blast) instead of the much slower incremental SMT core
        s = z3.Solver()
        s.set("timeout", self.timeout_ms)
        for c in conds:
            s.add(c)
        r = s.check()
        if r == z3.unknown:
            try:
                self.last_unknown = s.reason_unknown()
            except Exception:
                self.last_unknown = "?"
        return r, (s.model() if r == z3.sat else None)

    def check_sat(self, conds, recheck=True):
        t0 = time.time()
        self.queries += 1
        # first a short attempt; hard (typically nonlinear) queries then go to the abstraction below before the full timeout
        full = self.timeout_ms
        short = min(full, 10000)
        self.timeout_ms = short
        try:
            r, mdl = self._fresh_check(conds)
        finally:
            self.timeout_ms = full
        self.solver_time += time.time() - t0
        if r == z3.sat:
            return "sat", mdl
        if r == z3.unsat:
            if recheck and getattr(self, "recheck_budget", 0) > 0:
                self.second_opinion(conds)
            return "unsat", None
        # symbolic-by-symbolic multiplication / division stalls bit-blasting: retry with those operators replaced by
        # uninterpreted functions. unsat under the abstraction implies unsat of the original (the abstraction only
        # forgets facts about the operators); anything else stays unknown.
        ab = abstract_nonlinear(conds)
        if ab is not None:
            t0 = time.time()
            self.queries += 1
            r2, _ = self._fresh_check(ab)
            self.solver_time += time.time() - t0
            if r2 == z3.unsat:
                self.abstracted = getattr(self, "abstracted", 0) + 1
                return "unsat", None
        for attempt in range(3):
            # full timeout; an 'unknown' that is not a timeout (resource exhaustion while the machine is busy) is retried
            t0 = time.time()
            self.queries += 1
            r, mdl = self._fresh_check(conds)
            self.solver_time += time.time() - t0
            if r == z3.sat:
                return "sat", mdl
            if r == z3.unsat:
                return "unsat", None
            if "timeout" in str(getattr(self, "last_unknown", "")) or "canceled" in str(getattr(self, "last_unknown", "")):
                break
            time.sleep(3)
        return "unknown", None

    def second_opinion(self, conds):
        """thorough tier: re-discharge an unsat verification condition with the cvc5 binary on the exported SMT-LIB2
        text. A disagreement (cvc5 says sat) or an (error line is recorded; the caller treats it as inconclusive."""
        import subprocess, tempfile, os
        self.recheck_budget -= 1
        st = getattr(self, "recheck_stats", None)
        if st is None:
            st = self.recheck_stats = {"agree": 0, "skipped": 0, "disagree": 0}
        s = z3.Solver()
        for c in conds:
            s.add(c)
        txt = s.to_smt2()
        if "lambda" in txt or "declare-fun" not in txt and "assert" not in txt:
            st["skipped"] += 1
            return
        txt = "(set-logic ALL)\n" + txt
        fd, path = tempfile.mkstemp(suffix=".smt2")
        try:
            os.write(fd, txt.encode())
            os.close(fd)
            p = subprocess.run(["cvc5", "--lang=smt2", "--tlimit=5000", path], capture_output=True, text=True, timeout=15)
            out = (p.stdout + p.stderr).strip()
            if "(error" in out or p.returncode not in (0,):
                st["skipped"] += 1
            elif out.split("\n")[0].strip() == "unsat":
                st["agree"] += 1
            elif out.split("\n")[0].strip() == "sat":
                st["disagree"] += 1
            else:
                st["skipped"] += 1
        except Exception:
            st["skipped"] += 1
        finally:
            try:
                os.unlink(path)
            except OSError:
                pass

    def concretize(self, st, e, what="value", limit=4096):
        """Return list of all feasible concrete values of e (bounded)."""
        e = simp(e)
        if is_conc(e):
            return [e.as_long()]
        vals = []
        extra = []
        while len(vals) < limit:
            r, m = self.check_sat(st.pc + extra)
            if r != "sat":
                break
            v = m.eval(e, model_completion=True).as_long()
            vals.append(v)
            extra.append(e != BV(v, e.size()))
        else:
            raise Unsupported("too many values for " + what)
        return vals

    # ------------------------------------------------------------ stubs
    def _install_default_stubs(self):
        S = self.stubs
        S["verif_abort"] = self.stub_abort
        S["abort"] = self.stub_abort
        S["_ZSt9terminatev"] = self.stub_abort
        S["__cxa_atexit"] = lambda eng, st, args, ins: [(st, BV(0, 32))]
        for nm in ("_Znwm", "_Znam", "malloc"):
            S[nm] = self.stub_new
        for nm in ("_ZdlPv", "_ZdaPv", "free", "_ZdlPvm", "_ZdaPvm"):
            S[nm] = self.stub_delete
        S["strlen"] = self.stub_strlen
        S["strncpy"] = self.stub_strncpy
        S["memcmp"] = self.stub_memcmp
        S["bcmp"] = self.stub_memcmp

    def stub_abort(self, eng, st, args, ins):
        st.status = "abort"
        msg = None
        if args:
            a = simp(args[0])
            if is_conc(a):
                msg = self.read_cstr(st, a.as_long())
        st.info = msg
        return [(st, None)]

    def read_cstr(self, st, addr, maxlen=400):
        out = bytearray()
        for i in range(maxlen):
            b = simp(self.cbyte(st, addr + i))
            if not is_conc(b):
                break
            v = b.as_long()
            if v == 0:
                break
            out.append(v)
        return out.decode("latin1")

    def stub_new(self, eng, st, args, ins):
        sz = simp(args[0])
        if is_conc(sz):
            n = sz.as_long()
            if n > (1 << 24):
                st.status = "alloc-fail"
                st.info = "allocation of %d bytes" % n
                return [(st, None)]
            a = self.malloc(st, n)
            st.events.append(("alloc", a, n))
            return [(st, BV(a, 64))]
        # symbolic size: fork over feasible concrete sizes (bounded), plus 'too large'
        out = []
        limit = BV(self.user_max_alloc, 64) if hasattr(self, "user_max_alloc") else BV(4096, 64)
        big = z3.UGT(sz, limit)
        if self.feasible(st, big):
            s2 = st.copy()
            s2.pc.append(big)
            s2.status = "alloc-fail"
            s2.info = "allocation larger than modelled heap bound"
            out.append((s2, None))
        small = z3.Not(big)
        if self.feasible(st, small):
            s3 = st
            s3.pc.append(small)
            lim = limit.as_long()
            a = self.malloc(s3, lim)
            # block has symbolic live size; record for bounds checks by harness
            s3.allocs[-1] = (a, lim, "heap", True)
            s3.events.append(("alloc", a, sz))
            out.append((s3, BV(a, 64)))
        return out

    def stub_delete(self, eng, st, args, ins):
        a = simp(args[0])
        st.events.append(("free", a))
        if is_conc(a):
            av = a.as_long()
            for i, (b, sz, k, live) in enumerate(st.allocs):
                if b == av and k == "heap":
                    st.allocs[i] = (b, sz, k, False)
        return [(st, None)]

    def stub_strlen(self, eng, st, args, ins):
        out = []
        p = args[0]
        cur = st
        maxn = getattr(self, "max_strlen", 8)
        for i in range(maxn + 1):
            b = self.load(cur, p + BV(i, 64), 1, kind="ld-strlen")
            z = b == BV(0, 8)
            if self.feasible(cur, z):
                s2 = cur.copy()
                s2.pc.append(simp(z))
                out.append((s2, BV(i, 64)))
            nz = z3.Not(z)
            if not self.feasible(cur, nz):
                return out
            cur.pc.append(simp(nz))
        if getattr(self, "strlen_assume_bound", False):
            # stated bound of the claim: strings whose terminator lies beyond maxn bytes are outside it
            return out
        cur.status = "unwind"
        cur.info = "strlen bound %d exceeded" % maxn
        out.append((cur, None))
        return out

    def stub_strncpy(self, eng, st, args, ins):
        """strncpy(dst, src, n): copies up to the first NUL of src, then pads dst with NULs up to n bytes. One path per
        position of the first NUL (n must have a bounded number of feasible values)."""
        dst, src = args[0], args[1]
        out = []
        for nv in self.concretize(st, args[2], "strncpy length"):
            base = st.copy()
            base.pc.append(simp(args[2] == BV(nv, 64)))
            cur = base
            for i in range(nv + 1):
                if i == nv:
                    out.append((cur, dst))
                    break
                b = self.load(cur, src + BV(i, 64), 1, kind="ld-bulk")
                z = b == BV(0, 8)
                if self.feasible(cur, z):
                    s2 = cur.copy()
                    s2.pc.append(simp(z))
                    for j in range(i, nv):
                        self.store(s2, dst + BV(j, 64), BV(0, 8), kind="st-bulk")
                    out.append((s2, dst))
                nz = z3.Not(z)
                if not self.feasible(cur, nz):
                    break
                cur.pc.append(simp(nz))
                self.store(cur, dst + BV(i, 64), b, kind="st-bulk")
        return out

    def stub_memcmp(self, eng, st, args, ins):
        n = simp(args[2])
        if not is_conc(n):
            st.events.append(("bulk", "memcmp", simp(args[0]), simp(args[1]), n))
            return [(st, self.fresh("memcmp", 32))]
        r = BV(0, 32)
        for i in reversed(range(n.as_long())):
            a = self.load(st, args[0] + BV(i, 64), 1)
            b = self.load(st, args[1] + BV(i, 64), 1)
            r = z3.If(a == b, r, z3.If(z3.ULT(a, b), BV(-1, 32), BV(1, 32)))
        return [(st, simp(r))]

    def intrinsic(self, name, st, args, ins):
        if name.startswith("llvm.lifetime") or name.startswith("llvm.dbg") or \
                name.startswith("llvm.assume") or name.startswith("llvm.experimental.noalias") \
                or name.startswith("llvm.invariant") or name == "llvm.trap" and False:
            return [(st, None)]
        if name == "llvm.trap":
            st.status = "abort"
            st.info = "llvm.trap"
            return [(st, None)]
        if name.startswith("llvm.memcpy") or name.startswith("llvm.memmove"):
            dst, src, n = args[0], args[1], simp(args[2])
            if is_conc(n) and n.as_long() <= 4096:
                nb = n.as_long()
                data = [self.load(st, src + BV(i, 64), 1, check=(i == 0 or i == nb - 1), kind="ld-bulk") for i in range(nb)]
                st.events.append(("bulk", "memcpy", simp(dst), simp(src), n))
                for i in range(nb):
                    self.store(st, dst + BV(i, 64), data[i], check=(i == 0 or i == nb - 1), kind="st-bulk")
            else:
                st.events.append(("bulk", "memcpy", simp(dst), simp(src), n))
                a = z3.BitVec("a!lam", 64)
                d = simp(dst)
                s_ = simp(src)
                old = st.mem
                st.mem = z3.Lambda([a], z3.If(z3.And(z3.UGE(a - d, BV(0, 64)), z3.ULT(a - d, n)),
                                              z3.Select(old, s_ + (a - d)), z3.Select(old, a)))
            return [(st, None)]
        if name.startswith("llvm.memset"):
            dst, v, n = args[0], args[1], simp(args[2])
            if is_conc(n) and n.as_long() <= 4096:
                nb = n.as_long()
                st.events.append(("bulk", "memset", simp(dst), None, n))
                for i in range(nb):
                    self.store(st, dst + BV(i, 64), v, check=(i == 0 or i == nb - 1), kind="st-bulk")
            else:
                st.events.append(("bulk", "memset", simp(dst), None, n))
                a = z3.BitVec("a!lam", 64)
                d = simp(dst)
                old = st.mem
                st.mem = z3.Lambda([a], z3.If(z3.ULT(a - d, n), v, z3.Select(old, a)))
            return [(st, None)]
        for pre, fn in (("llvm.umul.with.overflow", "umul"), ("llvm.uadd.with.overflow", "uadd"),
                        ("llvm.usub.with.overflow", "usub"), ("llvm.smul.with.overflow", "smul"),
                        ("llvm.sadd.with.overflow", "sadd"), ("llvm.ssub.with.overflow", "ssub")):
            if name.startswith(pre):
                a, b = args
                w = a.size()
                if fn == "umul":
                    wide = z3.ZeroExt(w, a) * z3.ZeroExt(w, b)
                    ov = z3.Extract(2 * w - 1, w, wide) != BV(0, w)
                    r = a * b
                elif fn == "uadd":
                    r = a + b
                    ov = z3.ULT(r, a)
                elif fn == "usub":
                    r = a - b
                    ov = z3.ULT(a, b)
                elif fn == "smul":
                    wide = z3.SignExt(w, a) * z3.SignExt(w, b)
                    r = a * b
                    ov = wide != z3.SignExt(w, r)
                elif fn == "sadd":
                    r = a + b
                    ov = z3.SignExt(1, a) + z3.SignExt(1, b) != z3.SignExt(1, r)
                else:
                    r = a - b
                    ov = z3.SignExt(1, a) - z3.SignExt(1, b) != z3.SignExt(1, r)
                return [(st, [simp(r), simp(z3.If(ov, BV(1, 1), BV(0, 1)))])]
        for pre, f in (("llvm.umax", lambda a, b: z3.If(z3.UGT(a, b), a, b)),
                       ("llvm.umin", lambda a, b: z3.If(z3.ULT(a, b), a, b)),
                       ("llvm.smax", lambda a, b: z3.If(a > b, a, b)),
                       ("llvm.smin", lambda a, b: z3.If(a < b, a, b))):
            if name.startswith(pre):
                return [(st, simp(f(args[0], args[1])))]
        if name.startswith("llvm.abs"):
            return [(st, simp(z3.If(args[0] < 0, -args[0], args[0])))]
        if name.startswith("llvm.expect"):
            return [(st, args[0])]
        if name.startswith("llvm.threadlocal.address"):
            return [(st, args[0])]
        if name.startswith("llvm.stacksave"):
            return [(st, BV(0, 64))]
        if name.startswith("llvm.stackrestore"):
            return [(st, None)]
        raise Unsupported("intrinsic " + name)

    # ------------------------------------------------------------ run
    def run(self, fname, args, state=None, on_path=None):
        """Enumerate all feasible paths of fname(args). Returns list of final states."""
        fn = self.m.funcs[fname]
        st = state or State()
        if st.mem is None:
            st.mem = self.initial_memory()
        fr = Frame(fn, None)
        for (t, pn), a in zip(fn.params, args):
            fr.regs[pn] = a
        st.frames.append(fr)
        work = [st]
        done = []
        while work:
            s = work.pop()
            try:
                succ = self.step_until_fork(s)
            except Unsupported as e:
                s.status = "unsupported"
                s.info = str(e)
                succ = [s]
            for s2 in succ:
                if s2.status == "run":
                    work.append(s2)
                else:
                    done.append(s2)
                    if on_path:
                        on_path(s2)
            if len(done) + len(work) > self.max_paths:
                raise Unsupported("path explosion > %d" % self.max_paths)
        return done

    def step_until_fork(self, st):
        while st.status == "run":
            fr = st.frames[-1]
            ins = fr.fn.blocks[fr.block][fr.ip]
            self.insn_count += 1
            r = self.exec_ins(st, fr, ins)
            if r is not None:
                return r
        return [st]

    def goto(self, st, fr, label):
        key = (len(st.frames), fr.fn.name, label)
        c = st.visits.get(key, 0) + 1
        st.visits[key] = c
        if c > self.unwind:
            st.status = "unwind"
            st.info = "block %s of %s visited more than %d times" % (label, fr.fn.name, self.unwind)
            return
        fr.prev = fr.block
        fr.block = label
        fr.ip = 0
        # evaluate phis simultaneously
        blk = fr.fn.blocks[label]
        newvals = {}
        i = 0
        while i < len(blk) and blk[i].op == "phi":
            ins = blk[i]
            for (v, lbl) in ins.extra:
                if lbl == fr.prev:
                    newvals[ins.dst] = self.val(fr, v)
                    break
            else:
                raise Unsupported("phi without matching pred %s -> %s" % (fr.prev, label))
            i += 1
        fr.regs.update(newvals)
        fr.ip = i

    def do_return(self, st, v):
        fr = st.frames.pop()
        # clear visit counters of the popped depth so that recursion/loops calling it are bounded per call
        depth = len(st.frames) + 1
        for k in [k for k in st.visits if k[0] == depth]:
            del st.visits[k]
        if not st.frames:
            st.status = "ret"
            st.ret = v
            return
        caller = st.frames[-1]
        if fr.dst is not None:
            caller.regs[fr.dst] = v
        if caller.unwind_to is not None:
            # returning from an invoke: continue at normal dest
            normal, _ = caller.unwind_to
            caller.unwind_to = None
            self.goto(st, caller, normal)

    FSORT = {32: z3.Float32(), 64: z3.Float64()}

    def to_fp(self, v):
        if v.size() not in self.FSORT:
            raise Unsupported("floating-point width %d" % v.size())
        return z3.fpBVToFP(v, self.FSORT[v.size()])

    def from_fp(self, r):
        # fp.to_ieee_bv of a NaN is unspecified in z3: pin it to the canonical quiet NaN the hardware produces
        n = r.sort().ebits() + r.sort().sbits()
        qnan = {32: 0x7fc00000, 64: 0x7ff8000000000000}[n]
        return z3.If(z3.fpIsNaN(r), BV(qnan, n), z3.fpToIEEEBV(r))

    def fp_op(self, st, ins, a):
        """IEEE-754 binary32/binary64 semantics through z3's floating-point theory (values are carried as their bit patterns;
        round-to-nearest-even, the mode C++ code runs in unless it changes it). NaN results get the canonical quiet pattern
        z3 picks, so callers must not compare NaN payloads."""
        op = ins.op
        if any(isinstance(x, list) for x in a):
            raise Unsupported("vector floating point")
        rne = z3.RNE()
        if op == "fcmp":
            x, y = self.to_fp(a[0]), self.to_fp(a[1])
            pred = ins.extra
            uno = z3.Or(z3.fpIsNaN(x), z3.fpIsNaN(y))
            base = {"eq": z3.fpEQ(x, y), "gt": z3.fpGT(x, y), "ge": z3.fpGEQ(x, y), "lt": z3.fpLT(x, y), "le": z3.fpLEQ(x, y),
                    "ne": z3.Not(z3.fpEQ(x, y))}
            if pred == "true":
                c = z3.BoolVal(True)
            elif pred == "false":
                c = z3.BoolVal(False)
            elif pred == "ord":
                c = z3.Not(uno)
            elif pred == "uno":
                c = uno
            elif pred[0] == "o":
                c = z3.And(z3.Not(uno), base[pred[1:]])
            elif pred[0] == "u":
                c = z3.Or(uno, base[pred[1:]])
            else:
                raise Unsupported("fcmp " + pred)
            return z3.If(c, BV(1, 1), BV(0, 1))
        if op == "fneg":
            return a[0] ^ BV(1 << (a[0].size() - 1), a[0].size())
        if op in ("fadd", "fsub", "fmul", "fdiv"):
            x, y = self.to_fp(a[0]), self.to_fp(a[1])
            r = {"fadd": z3.fpAdd, "fsub": z3.fpSub, "fmul": z3.fpMul, "fdiv": z3.fpDiv}[op](rne, x, y)
            return self.from_fp(r)
        tb = self.bits_of(ins.ty)
        if op in ("fpext", "fptrunc"):
            return self.from_fp(z3.fpFPToFP(rne, self.to_fp(a[0]), self.FSORT[tb]))
        if op == "sitofp":
            return self.from_fp(z3.fpSignedToFP(rne, a[0], self.FSORT[tb]))
        if op == "uitofp":
            return self.from_fp(z3.fpUnsignedToFP(rne, a[0], self.FSORT[tb]))
        if op in ("fptosi", "fptoui"):
            # out-of-range conversions are undefined in C++ (poison in LLVM): callers assume the operand in range
            x = self.to_fp(a[0])
            return (z3.fpToSBV if op == "fptosi" else z3.fpToUBV)(z3.RTZ(), x, z3.BitVecSort(tb))
        raise Unsupported(op)

    def exec_ins(self, st, fr, ins):
        op = ins.op
        R = fr.regs
        if op in ("add", "sub", "mul", "shl", "lshr", "ashr", "and", "or", "xor", "udiv", "sdiv", "urem", "srem"):
            a = self.val(fr, ins.args[0])
            b = self.val(fr, ins.args[1])
            if op in ("udiv", "sdiv", "urem", "srem"):
                z = b == BV(0, b.size())
                if self.feasible(st, z):
                    s2 = st.copy()
                    s2.pc.append(simp(z))
                    s2.status = "ub"
                    s2.info = "division by zero: " + ins.text
                    st.pc.append(simp(z3.Not(z)))
                    R[ins.dst] = simp(self.binop(op, a, b))
                    fr.ip += 1
                    return [s2, st]
            R[ins.dst] = simp(self.binop(op, a, b))
            fr.ip += 1
            return None
        if op == "icmp":
            a = self.val(fr, ins.args[0])
            b = self.val(fr, ins.args[1])
            R[ins.dst] = simp(z3.If(self.ICMP[ins.extra](a, b), BV(1, 1), BV(0, 1)))
            fr.ip += 1
            return None
        if op == "fcmp" or op in ("fadd", "fsub", "fmul", "fdiv", "fneg", "fpext", "fptrunc", "sitofp", "uitofp", "fptosi", "fptoui"):
            vals = [self.val(fr, a) for a in ins.args]
            out = None
            if op in ("fptosi", "fptoui") and not isinstance(vals[0], list):
                # a floating value outside the range of the integer type (or NaN) has no defined conversion (C++ UB, LLVM poison)
                x = self.to_fp(vals[0])
                tb = self.bits_of(ins.ty)
                srt = x.sort()
                if op == "fptosi":
                    ok = z3.And(z3.fpGEQ(x, z3.FPVal(-(2.0 ** (tb - 1)), srt)), z3.fpLT(x, z3.FPVal(2.0 ** (tb - 1), srt)))
                else:
                    ok = z3.And(z3.fpGT(x, z3.FPVal(-1.0, srt)), z3.fpLT(x, z3.FPVal(2.0 ** tb, srt)))
                ok = z3.And(z3.Not(z3.fpIsNaN(x)), ok)
                if self.feasible(st, z3.Not(ok)):
                    s2 = st.copy()
                    s2.pc.append(simp(z3.Not(ok)))
                    s2.status = "ub"
                    s2.info = "floating-point value outside the range of the integer type: " + ins.text
                    st.pc.append(simp(ok))
                    out = [s2, st]
            R[ins.dst] = simp(self.fp_op(st, ins, vals))
            fr.ip += 1
            return out
        if op in ("zext", "sext", "trunc", "bitcast", "inttoptr", "ptrtoint", "addrspacecast"):
            v = self.val(fr, ins.args[0])
            if isinstance(v, list):
                raise Unsupported("aggregate cast")
            R[ins.dst] = simp(self.resize(v, self.bits_of(ins.ty), op == "sext"))
            fr.ip += 1
            return None
        if op == "select":
            c = self.val(fr, ins.args[0])
            a = self.val(fr, ins.args[1])
            b = self.val(fr, ins.args[2])
            if isinstance(a, list):
                R[ins.dst] = [simp(z3.If(c == BV(1, 1), x, y)) for x, y in zip(a, b)]
            else:
                R[ins.dst] = simp(z3.If(c == BV(1, 1), a, b))
            fr.ip += 1
            return None
        if op == "freeze":
            R[ins.dst] = self.val(fr, ins.args[0])
            fr.ip += 1
            return None
        if op == "alloca":
            size, al = self.lay.size_align(ins.ty)
            if ins.args:
                n = simp(self.val(fr, ins.args[0]))
                if not is_conc(n):
                    raise Unsupported("symbolic alloca")
                size *= n.as_long()
            R[ins.dst] = BV(self.alloca(st, max(size, 1), max(al, 1)), 64)
            fr.ip += 1
            return None
        if op == "load":
            p = self.val(fr, ins.args[0])
            R[ins.dst] = self.load_typed(st, p, ins.ty)
            fr.ip += 1
            return None
        if op == "store":
            v = self.val(fr, ins.args[0])
            p = self.val(fr, ins.args[1])
            self.store_typed(st, p, ins.ty, v)
            fr.ip += 1
            return None
        if op == "getelementptr":
            p = self.val(fr, ins.args[0])
            idx = [self.val(fr, a) for a in ins.args[1:]]
            R[ins.dst] = simp(p + self.gep_offset(ins.ty, idx))
            fr.ip += 1
            return None
        if op == "br":
            self.goto(st, fr, ins.extra[0])
            return None
        if op == "condbr":
            c = simp(self.val(fr, ins.args[0]))
            a, b = ins.extra
            if is_conc(c):
                self.goto(st, fr, a if c.as_long() else b)
                return None
            t = c == BV(1, 1)
            ft = self.feasible(st, t)
            ff = self.feasible(st, z3.Not(t))
            if ft and ff:
                s2 = st.copy()
                st.pc.append(simp(t))
                self.goto(st, fr, a)
                s2.pc.append(simp(z3.Not(t)))
                self.goto(s2, s2.frames[-1], b)
                return [st, s2]
            if ft:
                st.pc.append(simp(t))
                self.goto(st, fr, a)
            elif ff:
                st.pc.append(simp(z3.Not(t)))
                self.goto(st, fr, b)
            else:
                st.status = "infeasible"
            return None
        if op == "switch":
            v = simp(self.val(fr, ins.args[0]))
            default, cases = ins.extra
            if is_conc(v):
                for cv, lbl in cases:
                    if self.const_value(cv).as_long() == v.as_long():
                        self.goto(st, fr, lbl)
                        return None
                self.goto(st, fr, default)
                return None
            out = []
            notany = []
            for cv, lbl in cases:
                cond = v == self.const_value(cv)
                notany.append(z3.Not(cond))
                if self.feasible(st, cond):
                    s2 = st.copy()
                    s2.pc.append(simp(cond))
                    self.goto(s2, s2.frames[-1], lbl)
                    out.append(s2)
            dcond = z3.And(*notany) if notany else z3.BoolVal(True)
            if self.feasible(st, dcond):
                st.pc.append(simp(dcond))
                self.goto(st, fr, default)
                out.append(st)
            return out
        if op == "ret":
            v = self.val(fr, ins.args[0]) if ins.args else None
            self.do_return(st, v)
            return None
        if op == "unreachable":
            st.status = "ub"
            st.info = "reached 'unreachable' in " + fr.fn.name
            return None
        if op == "extractvalue":
            v = self.val(fr, ins.args[0])
            for i in ins.extra:
                v = v[i]
            R[ins.dst] = v
            fr.ip += 1
            return None
        if op == "insertvalue":
            agg = self.val(fr, ins.args[0])
            v = self.val(fr, ins.args[1])

            def ins_at(a, idx):
                a = list(a)
                if len(idx) == 1:
                    a[idx[0]] = v
                else:
                    a[idx[0]] = ins_at(a[idx[0]], idx[1:])
                return a
            R[ins.dst] = ins_at(agg, ins.extra)
            fr.ip += 1
            return None
        if op == "call" or op == "invoke":
            return self.exec_call(st, fr, ins)
        if op == "cmpxchg":
            p = self.val(fr, ins.args[0])
            cmpv = self.val(fr, ins.args[1])
            newv = self.val(fr, ins.args[2])
            old = self.load_typed(st, p, ins.ty, kind="ld-atomic")
            eq = old == cmpv
            self.store_typed(st, p, ins.ty, simp(z3.If(eq, newv, old)), kind="st-atomic")
            R[ins.dst] = [old, simp(z3.If(eq, BV(1, 1), BV(0, 1)))]
            fr.ip += 1
            return None
        if op == "atomicrmw":
            p = self.val(fr, ins.args[0])
            v = self.val(fr, ins.args[1])
            old = self.load_typed(st, p, ins.ty, kind="ld-atomic")
            rmw = ins.extra
            new = {"add": old + v, "sub": old - v, "xchg": v, "and": old & v, "or": old | v,
                   "xor": old ^ v}.get(rmw)
            if new is None:
                raise Unsupported("atomicrmw " + rmw)
            self.store_typed(st, p, ins.ty, simp(new), kind="st-atomic")
            R[ins.dst] = old
            fr.ip += 1
            return None
        if op == "fence":
            fr.ip += 1
            return None
        if op == "landingpad":
            R[ins.dst] = [BV(st.exc or 0, 64), BV(1, 32)]
            fr.ip += 1
            return None
        if op == "resume":
            return self.unwind_exception(st)
        if op == "phi":
            raise Unsupported("phi not at block start")
        raise Unsupported("instruction " + ins.text)

    def unwind_exception(self, st):
        """Pop frames until one is suspended in an invoke; continue at its unwind label."""
        st.frames.pop()
        while st.frames:
            fr = st.frames[-1]
            if fr.unwind_to is not None:
                _, ul = fr.unwind_to
                fr.unwind_to = None
                self.goto(st, fr, ul)
                return None
            st.frames.pop()
        st.status = "uncaught"
        return None

    def reg_class(self, t):
        if isinstance(t, (FloatT, VecT)):
            return "SSE"
        if isinstance(t, (IntT, PtrT)):
            return "INTEGER"
        return "MEMORY/aggregate"

    def resolve_callee(self, st, fr, callee):
        if isinstance(callee, Const) and callee.kind == "global":
            return [(st, callee.val)]
        v = simp(self.val(fr, callee))
        if is_conc(v):
            name = self.addr2f.get(v.as_long())
            if name is None:
                st.status = "ub"
                st.info = "indirect call to non-function address 0x%x" % v.as_long()
                return [(st, None)]
            return [(st, name)]
        out = []
        try:
            cands = self.concretize(st, v, "indirect callee", limit=256)
        except Unsupported:
            # the callee is read from memory nothing constrains (e.g. through a wild or null-based pointer): a wild call
            st.status = "ub"
            st.info = "indirect call through a pointer that is not determined by the program state: %s" % str(v)[:80]
            return [(st, None)]
        for cv in cands:
            s2 = st.copy()
            s2.pc.append(v == BV(cv, 64))
            name = self.addr2f.get(cv)
            if name is None:
                s2.status = "ub"
                s2.info = "indirect call to non-function address 0x%x" % cv
            out.append((s2, name))
        return out

    def exec_call(self, st, fr, ins):
        callee = ins.extra if ins.op == "call" else ins.extra[0]
        targets = self.resolve_callee(st, fr, callee)
        results = []
        for (s, name) in targets:
            if s.status != "run":
                results.append(s)
                continue
            f = s.frames[-1]
            if name.startswith("llvm.experimental.noalias") or name.startswith("llvm.dbg") or \
                    name.startswith("llvm.lifetime") or name.startswith("llvm.invariant"):
                if ins.op == "invoke":
                    self.goto(s, f, ins.extra[1])
                else:
                    f.ip += 1
                results.append(s)
                continue
            args = [self.val(f, a) for a in ins.args]
            if name in self.stubs:
                outs = self.stubs[name](self, s, args, ins)
            elif name.startswith("llvm."):
                outs = self.intrinsic(name, s, args, ins)
            elif name in self.m.funcs:
                callee_fn = self.m.funcs[name]
                nf = Frame(callee_fn, ins.dst)
                # calling convention conformance: a call through a function pointer of another type only works when
                # every argument travels in the same register class (x86-64 SysV: INTEGER vs SSE) and the counts agree
                bad = None
                if len(callee_fn.params) != len(args) and not getattr(callee_fn, "vararg", False):
                    bad = "%d arguments passed, %d expected" % (len(args), len(callee_fn.params))
                else:
                    for i, ((t, pn), a) in enumerate(zip(callee_fn.params, ins.args)):
                        at = getattr(a, "ty", None)
                        if at is not None and self.reg_class(at) != self.reg_class(t):
                            bad = "argument %d is passed as %s but %s expects %s" % (i, self.reg_class(at), name, self.reg_class(t))
                            break
                if bad is not None:
                    s.events.append(("abi-mismatch", name, bad))
                    s.status = "ub"
                    s.info = "call of %s through an incompatible function type: %s" % (name, bad)
                    results.append(s)
                    continue
                for (t, pn), a in zip(callee_fn.params, args):
                    nf.regs[pn] = a
                if ins.op == "invoke":
                    f.unwind_to = (ins.extra[1], ins.extra[2])
                else:
                    f.ip += 1
                if len(s.frames) > 200:
                    raise Unsupported("call depth")
                s.frames.append(nf)
                results.append(s)
                continue
            else:
                raise Unsupported("call to undefined external " + name)
            for (s2, rv) in outs:
                if s2.status == "run":
                    f2 = s2.frames[-1]
                    pend = s2.user.pop("pending_call", None)
                    if pend is not None:
                        # the stub asks for a function of the module to run first; this call instruction is executed again afterwards
                        hf = self.m.funcs[pend[0]]
                        nf = Frame(hf, None)
                        for (t, pn), a in zip(hf.params, pend[1]):
                            nf.regs[pn] = a
                        s2.frames.append(nf)
                        results.append(s2)
                        continue
                    if s2.user.get("throwing"):
                        s2.user["throwing"] = False
                        # exception raised by stub: unwind from this frame
                        if ins.op == "invoke":
                            self.goto(s2, f2, ins.extra[2])
                        else:
                            s2.frames.append(Frame(f2.fn, None))  # dummy popped by unwind
                            self.unwind_exception(s2)
                        results.append(s2)
                        continue
                    if ins.dst is not None:
                        f2.regs[ins.dst] = rv
                    if ins.op == "invoke":
                        self.goto(s2, f2, ins.extra[1])
                    else:
                        f2.ip += 1
                results.append(s2)
        if len(results) == 1 and results[0] is st:
            return None
        return results
