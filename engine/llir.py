"""Minimal parser for textual LLVM IR as emitted by clang-14 (typed pointers).

Only the subset that appears in -O1 output of the rlbox kernels is supported;
anything else raises ParseError so that an unsupported construct can never be
silently skipped.
"""
import re


class ParseError(Exception):
    pass


# ----------------------------------------------------------------- types
class Ty:
    pass


class IntT(Ty):
    def __init__(self, bits):
        self.bits = bits

    def __repr__(self):
        return "i%d" % self.bits


class FloatT(Ty):
    def __init__(self, name, bits):
        self.name = name
        self.bits = bits

    def __repr__(self):
        return self.name


class VoidT(Ty):
    def __repr__(self):
        return "void"


class LabelT(Ty):
    def __repr__(self):
        return "label"


class MetaT(Ty):
    def __repr__(self):
        return "metadata"


class PtrT(Ty):
    def __init__(self, pointee):
        self.pointee = pointee

    def __repr__(self):
        return "%r*" % (self.pointee,)


class ArrT(Ty):
    def __init__(self, n, elem):
        self.n = n
        self.elem = elem

    def __repr__(self):
        return "[%d x %r]" % (self.n, self.elem)


class VecT(Ty):
    def __init__(self, n, elem):
        self.n = n
        self.elem = elem

    def __repr__(self):
        return "<%d x %r>" % (self.n, self.elem)


class StructT(Ty):
    def __init__(self, fields, packed=False):
        self.fields = fields
        self.packed = packed

    def __repr__(self):
        return "{%s}" % ", ".join(map(repr, self.fields))


class NamedT(Ty):
    def __init__(self, name):
        self.name = name

    def __repr__(self):
        return "%" + self.name


class FuncT(Ty):
    def __init__(self, ret, params, vararg):
        self.ret = ret
        self.params = params
        self.vararg = vararg

    def __repr__(self):
        return "%r(%s)" % (self.ret, ", ".join(map(repr, self.params)))


FLOATS = {"half": 16, "bfloat": 16, "float": 32, "double": 64, "x86_fp80": 80, "fp128": 128}

PARAM_ATTRS = {
    "noundef", "nonnull", "nocapture", "readonly", "writeonly", "readnone", "signext",
    "zeroext", "inreg", "noalias", "returned", "immarg", "nest", "nofree", "swiftself",
    "swifterror", "inalloca",
}
PARAM_ATTRS_ARG = {"align", "dereferenceable", "dereferenceable_or_null", "byval", "sret",
                   "byref", "preallocated", "elementtype"}


# ----------------------------------------------------------------- values
class Const:
    """kind in: int, null, undef, zero, global, cexpr, agg, cstr, float"""

    def __init__(self, kind, ty, val=None):
        self.kind = kind
        self.ty = ty
        self.val = val

    def __repr__(self):
        return "C(%s,%r,%r)" % (self.kind, self.ty, self.val)


class Reg:
    def __init__(self, name, ty=None):
        self.name = name
        self.ty = ty

    def __repr__(self):
        return "%" + self.name


class Cursor:
    def __init__(self, s, pos=0):
        self.s = s
        self.p = pos

    def ws(self):
        s = self.s
        n = len(s)
        while self.p < n and s[self.p] in " \t\n":
            self.p += 1

    def peek(self, lit):
        self.ws()
        return self.s.startswith(lit, self.p)

    def accept(self, lit):
        self.ws()
        if self.s.startswith(lit, self.p):
            self.p += len(lit)
            return True
        return False

    def accept_word(self, w):
        self.ws()
        if self.s.startswith(w, self.p):
            e = self.p + len(w)
            if e >= len(self.s) or not (self.s[e].isalnum() or self.s[e] in "_."):
                self.p = e
                return True
        return False

    def expect(self, lit):
        if not self.accept(lit):
            raise ParseError("expected %r at %r" % (lit, self.s[self.p:self.p + 60]))

    def eof(self):
        self.ws()
        return self.p >= len(self.s)

    _word = re.compile(r"[A-Za-z_][A-Za-z0-9_.]*")

    def word(self):
        self.ws()
        m = self._word.match(self.s, self.p)
        if not m:
            return None
        self.p = m.end()
        return m.group(0)

    def peek_word(self):
        self.ws()
        m = self._word.match(self.s, self.p)
        return m.group(0) if m else None

    _ident = re.compile(r'"((?:[^"\\]|\\.)*)"|([-A-Za-z$._0-9]+)')

    def ident(self):
        m = self._ident.match(self.s, self.p)
        if not m:
            raise ParseError("ident at %r" % self.s[self.p:self.p + 40])
        self.p = m.end()
        return m.group(1) if m.group(1) is not None else m.group(2)

    _int = re.compile(r"-?\d+")

    def integer(self):
        self.ws()
        m = self._int.match(self.s, self.p)
        if not m:
            raise ParseError("int at %r" % self.s[self.p:self.p + 40])
        self.p = m.end()
        return int(m.group(0))

    def rest(self):
        return self.s[self.p:]


def parse_type(c):
    c.ws()
    s = c.s
    if c.accept("{"):
        fields = []
        if not c.accept("}"):
            while True:
                fields.append(parse_type(c))
                if c.accept("}"):
                    break
                c.expect(",")
        t = StructT(fields)
    elif c.peek("<{"):
        c.expect("<{")
        fields = []
        if not c.accept("}>"):
            while True:
                fields.append(parse_type(c))
                if c.accept("}>"):
                    break
                c.expect(",")
        t = StructT(fields, packed=True)
    elif c.accept("["):
        n = c.integer()
        c.expect("x")
        e = parse_type(c)
        c.expect("]")
        t = ArrT(n, e)
    elif c.accept("<"):
        n = c.integer()
        c.expect("x")
        e = parse_type(c)
        c.expect(">")
        t = VecT(n, e)
    elif c.accept("%"):
        t = NamedT(c.ident())
    else:
        w = c.word()
        if w is None:
            raise ParseError("type at %r" % s[c.p:c.p + 40])
        if w[0] == "i" and w[1:].isdigit():
            t = IntT(int(w[1:]))
        elif w == "void":
            t = VoidT()
        elif w in FLOATS:
            t = FloatT(w, FLOATS[w])
        elif w == "label":
            t = LabelT()
        elif w == "metadata":
            t = MetaT()
        elif w == "ptr":
            t = PtrT(IntT(8))
        elif w == "opaque":
            t = StructT([])
        else:
            raise ParseError("unknown type word %r in %r" % (w, s[:80]))
    while True:
        c.ws()
        if c.accept("*"):
            t = PtrT(t)
        elif c.peek("(") and not isinstance(t, (LabelT,)):
            # function type
            save = c.p
            c.expect("(")
            params = []
            vararg = False
            ok = True
            if not c.accept(")"):
                while True:
                    if c.accept("..."):
                        vararg = True
                    else:
                        try:
                            params.append(parse_type(c))
                        except ParseError:
                            ok = False
                            break
                    if c.accept(")"):
                        break
                    if not c.accept(","):
                        ok = False
                        break
            if not ok:
                c.p = save
                break
            t = FuncT(t, params, vararg)
        elif c.accept_word("addrspace"):
            c.expect("(")
            c.integer()
            c.expect(")")
        else:
            break
    return t


CAST_OPS = {"bitcast", "inttoptr", "ptrtoint", "trunc", "zext", "sext", "addrspacecast",
            "fptosi", "fptoui", "sitofp", "uitofp", "fpext", "fptrunc"}
BIN_OPS = {"add", "sub", "mul", "shl", "lshr", "ashr", "and", "or", "xor", "udiv", "sdiv",
           "urem", "srem"}
FBIN_OPS = {"fadd", "fsub", "fmul", "fdiv", "frem"}


def unescape_cstr(s):
    out = bytearray()
    i = 0
    while i < len(s):
        ch = s[i]
        if ch == "\\":
            out.append(int(s[i + 1:i + 3], 16))
            i += 3
        else:
            out.append(ord(ch))
            i += 1
    return bytes(out)


def parse_value(c, ty):
    """Parse a value of known type `ty`."""
    c.ws()
    if c.accept("%"):
        return Reg(c.ident(), ty)
    if c.accept("@"):
        return Const("global", ty, c.ident())
    if c.accept_word("null"):
        return Const("null", ty)
    if c.accept_word("undef") or c.accept_word("poison"):
        return Const("undef", ty)
    if c.accept_word("zeroinitializer"):
        return Const("zero", ty)
    if c.accept_word("true"):
        return Const("int", ty, 1)
    if c.accept_word("false"):
        return Const("int", ty, 0)
    if c.accept_word("none"):
        return Const("zero", ty)
    if c.peek('c"'):
        c.expect('c"')
        e = c.s.index('"', c.p)
        # cstr has no embedded unescaped quotes
        raw = c.s[c.p:e]
        c.p = e + 1
        return Const("cstr", ty, unescape_cstr(raw))
    if c.peek("{") or c.peek("[") or c.peek("<{") or (c.peek("<") and isinstance(ty, VecT)):
        packed = c.accept("<{")
        if not packed:
            close = {"{": "}", "[": "]", "<": ">"}[c.s[c.p]]
            c.p += 1
        else:
            close = "}>"
        elems = []
        if not c.accept(close):
            while True:
                et = parse_type(c)
                elems.append(parse_value(c, et))
                if c.accept(close):
                    break
                c.expect(",")
        return Const("agg", ty, elems)
    w = c.peek_word()
    if w == "getelementptr":
        c.word()
        inb = c.accept_word("inbounds")
        c.expect("(")
        bt = parse_type(c)
        c.expect(",")
        pt = parse_type(c)
        pv = parse_value(c, pt)
        idx = []
        while c.accept(","):
            c.accept_word("inrange")
            it = parse_type(c)
            idx.append(parse_value(c, it))
        c.expect(")")
        return Const("cexpr", ty, ("gep", bt, pv, idx))
    if w in CAST_OPS:
        c.word()
        c.expect("(")
        ft = parse_type(c)
        fv = parse_value(c, ft)
        if not c.accept_word("to"):
            raise ParseError("cast cexpr")
        tt = parse_type(c)
        c.expect(")")
        return Const("cexpr", ty, (w, fv, tt))
    if w in BIN_OPS or w == "icmp" or w == "select":
        c.word()
        pred = None
        while c.accept_word("nuw") or c.accept_word("nsw") or c.accept_word("exact"):
            pass
        if w == "icmp":
            pred = c.word()
        c.expect("(")
        ops = []
        while True:
            ot = parse_type(c)
            ops.append(parse_value(c, ot))
            if c.accept(")"):
                break
            c.expect(",")
        return Const("cexpr", ty, (w, pred, ops))
    # numbers
    m = re.compile(r"-?\d+(\.\d+(e[+-]?\d+)?)?|0x[KLMHR]?[0-9A-Fa-f]+").match(c.s, c.p)
    if m:
        c.p = m.end()
        txt = m.group(0)
        if isinstance(ty, FloatT):
            return Const("float", ty, txt)
        if txt.startswith("0x") or "." in txt:
            return Const("float", ty, txt)
        return Const("int", ty, int(txt))
    raise ParseError("value at %r" % c.s[c.p:c.p + 60])


def skip_param_attrs(c):
    while True:
        w = c.peek_word()
        if w in PARAM_ATTRS:
            c.word()
        elif w in PARAM_ATTRS_ARG:
            c.word()
            c.ws()
            if c.accept("("):
                depth = 1
                while depth:
                    ch = c.s[c.p]
                    if ch == "(":
                        depth += 1
                    elif ch == ")":
                        depth -= 1
                    c.p += 1
            else:
                c.integer()
        else:
            return


def parse_typed_value(c):
    t = parse_type(c)
    skip_param_attrs(c)
    return parse_value(c, t)


class Instr:
    __slots__ = ("op", "dst", "ty", "args", "extra", "text")

    def __init__(self, op, dst=None, ty=None, args=None, extra=None, text=""):
        self.op = op
        self.dst = dst
        self.ty = ty
        self.args = args or []
        self.extra = extra
        self.text = text

    def __repr__(self):
        return self.text


class Function:
    def __init__(self, name, ret, params, attrs):
        self.name = name
        self.ret = ret
        self.params = params  # list of (Ty, name)
        self.blocks = {}  # label -> [Instr]
        self.order = []
        self.attrs = attrs


class Global:
    def __init__(self, name, ty, init, const, tls, external):
        self.name = name
        self.ty = ty
        self.init = init
        self.const = const
        self.tls = tls
        self.external = external


class Module:
    def __init__(self):
        self.types = {}
        self.globals = {}
        self.funcs = {}
        self.decls = {}
        self.aliases = {}


CALL_PREFIX = {"tail", "notail", "musttail"}
CCONV = {"fastcc", "coldcc", "ccc", "cc"}
RET_ATTRS = {"zeroext", "signext", "noundef", "nonnull", "noalias", "inreg"}
FMF = {"nnan", "ninf", "nsz", "arcp", "contract", "afn", "reassoc", "fast"}


def parse_call_tail(c):
    """after 'call'/'invoke': returns (retty, callee_value, args)"""
    while True:
        w = c.peek_word()
        if w in CCONV or w in RET_ATTRS or w in FMF:
            c.word()
            if w == "cc":
                c.integer()
        elif w in ("dereferenceable", "dereferenceable_or_null", "align"):
            c.word()
            if c.accept("("):
                c.integer()
                c.expect(")")
            else:
                c.integer()
        elif w == "addrspace":
            c.word()
            c.expect("(")
            c.integer()
            c.expect(")")
        else:
            break
    t = parse_type(c)
    # t is either return type or full function type (FuncT possibly ptr)
    if isinstance(t, FuncT):
        retty = t.ret
    elif isinstance(t, PtrT) and isinstance(t.pointee, FuncT):
        retty = t.pointee.ret
    else:
        retty = t
    c.ws()
    callee = parse_value(c, PtrT(IntT(8)))
    c.expect("(")
    args = []
    if not c.accept(")"):
        while True:
            at = parse_type(c)
            skip_param_attrs(c)
            if isinstance(at, MetaT):
                # metadata operand: skip to matching , or )
                depth = 0
                while True:
                    ch = c.s[c.p]
                    if ch == "(":
                        depth += 1
                    elif ch == ")":
                        if depth == 0:
                            break
                        depth -= 1
                    elif ch == "," and depth == 0:
                        break
                    c.p += 1
                args.append(Const("undef", at))
            else:
                args.append(parse_value(c, at))
            if c.accept(")"):
                break
            c.expect(",")
    return retty, callee, args


def parse_instr(line):
    text = line
    c = Cursor(line)
    dst = None
    c.ws()
    if c.peek("%"):
        save = c.p
        c.expect("%")
        name = c.ident()
        if c.accept("="):
            dst = name
        else:
            c.p = save
    op = c.word()
    if op is None:
        raise ParseError("no opcode: " + line)
    if op in BIN_OPS or op in FBIN_OPS:
        flags = []
        while True:
            w = c.peek_word()
            if w in ("nuw", "nsw", "exact") or w in FMF:
                flags.append(c.word())
            else:
                break
        t = parse_type(c)
        a = parse_value(c, t)
        c.expect(",")
        b = parse_value(c, t)
        return Instr(op, dst, t, [a, b], flags, text)
    if op == "fneg":
        while c.peek_word() in FMF:
            c.word()
        t = parse_type(c)
        a = parse_value(c, t)
        return Instr(op, dst, t, [a], None, text)
    if op in ("icmp", "fcmp"):
        while c.peek_word() in FMF:
            c.word()
        pred = c.word()
        t = parse_type(c)
        a = parse_value(c, t)
        c.expect(",")
        b = parse_value(c, t)
        return Instr(op, dst, t, [a, b], pred, text)
    if op in CAST_OPS:
        ft = parse_type(c)
        v = parse_value(c, ft)
        if not c.accept_word("to"):
            raise ParseError("cast: " + line)
        tt = parse_type(c)
        return Instr(op, dst, tt, [v], ft, text)
    if op == "select":
        while c.peek_word() in FMF:
            c.word()
        ct = parse_type(c)
        cv = parse_value(c, ct)
        c.expect(",")
        t = parse_type(c)
        a = parse_value(c, t)
        c.expect(",")
        t2 = parse_type(c)
        b = parse_value(c, t2)
        return Instr(op, dst, t, [cv, a, b], None, text)
    if op == "phi":
        while c.peek_word() in FMF:
            c.word()
        t = parse_type(c)
        inc = []
        while True:
            c.expect("[")
            v = parse_value(c, t)
            c.expect(",")
            c.expect("%")
            lbl = c.ident()
            c.expect("]")
            inc.append((v, lbl))
            if not c.accept(","):
                break
        return Instr(op, dst, t, [], inc, text)
    if op == "alloca":
        c.accept_word("inalloca")
        t = parse_type(c)
        n = None
        if c.accept(","):
            if c.accept_word("align"):
                c.integer()
            else:
                nt = parse_type(c)
                n = parse_value(c, nt)
        return Instr(op, dst, t, [n] if n is not None else [], None, text)
    if op == "load":
        atomic = c.accept_word("atomic")
        vol = c.accept_word("volatile")
        t = parse_type(c)
        c.expect(",")
        pt = parse_type(c)
        p = parse_value(c, pt)
        return Instr(op, dst, t, [p], {"volatile": vol, "atomic": atomic}, text)
    if op == "store":
        atomic = c.accept_word("atomic")
        vol = c.accept_word("volatile")
        t = parse_type(c)
        v = parse_value(c, t)
        c.expect(",")
        pt = parse_type(c)
        p = parse_value(c, pt)
        return Instr(op, None, t, [v, p], {"volatile": vol, "atomic": atomic}, text)
    if op == "getelementptr":
        c.accept_word("inbounds")
        bt = parse_type(c)
        c.expect(",")
        pt = parse_type(c)
        p = parse_value(c, pt)
        idx = []
        while c.accept(","):
            it = parse_type(c)
            idx.append(parse_value(c, it))
        return Instr(op, dst, bt, [p] + idx, None, text)
    if op in CALL_PREFIX:
        op2 = c.word()
        if op2 != "call":
            raise ParseError("expected call: " + line)
        op = "call"
    if op == "call":
        retty, callee, args = parse_call_tail(c)
        return Instr("call", dst, retty, args, callee, text)
    if op == "invoke":
        retty, callee, args = parse_call_tail(c)
        # skip attribute group refs / operand bundles
        rest = c.rest()
        m = re.search(r"to label %(\S+) unwind label %(\S+)", rest)
        if not m:
            raise ParseError("invoke dests: " + line)
        return Instr("invoke", dst, retty, args, (callee, m.group(1).strip('"'), m.group(2).strip('"')), text)
    if op == "landingpad":
        t = parse_type(c)
        cleanup = False
        clauses = []
        while not c.eof():
            if c.accept_word("cleanup"):
                cleanup = True
            elif c.accept_word("catch"):
                ct = parse_type(c)
                clauses.append(("catch", parse_value(c, ct)))
            elif c.accept_word("filter"):
                ct = parse_type(c)
                clauses.append(("filter", parse_value(c, ct)))
            else:
                break
        return Instr(op, dst, t, [], (cleanup, clauses), text)
    if op == "resume":
        t = parse_type(c)
        v = parse_value(c, t)
        return Instr(op, None, t, [v], None, text)
    if op == "br":
        if c.accept_word("label"):
            c.expect("%")
            return Instr("br", None, None, [], (c.ident(),), text)
        t = parse_type(c)
        v = parse_value(c, t)
        c.expect(",")
        c.accept_word("label")
        c.expect("%")
        a = c.ident()
        c.expect(",")
        c.accept_word("label")
        c.expect("%")
        b = c.ident()
        return Instr("condbr", None, None, [v], (a, b), text)
    if op == "switch":
        t = parse_type(c)
        v = parse_value(c, t)
        c.expect(",")
        c.accept_word("label")
        c.expect("%")
        default = c.ident()
        c.expect("[")
        cases = []
        while not c.accept("]"):
            ct = parse_type(c)
            cv = parse_value(c, ct)
            c.expect(",")
            c.accept_word("label")
            c.expect("%")
            cases.append((cv, c.ident()))
        return Instr("switch", None, t, [v], (default, cases), text)
    if op == "ret":
        t = parse_type(c)
        if isinstance(t, VoidT):
            return Instr("ret", None, t, [], None, text)
        return Instr("ret", None, t, [parse_value(c, t)], None, text)
    if op == "unreachable":
        return Instr("unreachable", text=text)
    if op == "extractvalue":
        t = parse_type(c)
        v = parse_value(c, t)
        idx = []
        while c.accept(","):
            idx.append(c.integer())
        return Instr(op, dst, t, [v], idx, text)
    if op == "insertvalue":
        t = parse_type(c)
        v = parse_value(c, t)
        c.expect(",")
        t2 = parse_type(c)
        v2 = parse_value(c, t2)
        idx = []
        while c.accept(","):
            idx.append(c.integer())
        return Instr(op, dst, t, [v, v2], idx, text)
    if op == "freeze":
        t = parse_type(c)
        return Instr(op, dst, t, [parse_value(c, t)], None, text)
    if op == "cmpxchg":
        c.accept_word("weak")
        c.accept_word("volatile")
        pt = parse_type(c)
        p = parse_value(c, pt)
        c.expect(",")
        t = parse_type(c)
        cmpv = parse_value(c, t)
        c.expect(",")
        t2 = parse_type(c)
        newv = parse_value(c, t2)
        return Instr(op, dst, t, [p, cmpv, newv], None, text)
    if op == "atomicrmw":
        c.accept_word("volatile")
        rmw = c.word()
        pt = parse_type(c)
        p = parse_value(c, pt)
        c.expect(",")
        t = parse_type(c)
        v = parse_value(c, t)
        return Instr(op, dst, t, [p, v], rmw, text)
    if op == "fence":
        return Instr("fence", text=text)
    raise ParseError("unsupported instruction: " + line)


_define_re = re.compile(r"^define\s")
_attr_words = re.compile(r"^(dso_local|dso_preemptable|internal|linkonce_odr|linkonce|weak_odr|weak|external|"
                         r"private|available_externally|hidden|protected|default|unnamed_addr|"
                         r"local_unnamed_addr|noundef|nonnull|zeroext|signext|noalias|fastcc|ccc|coldcc)$")


def strip_comment(line):
    # comments start with ';' outside of quotes
    inq = False
    for i, ch in enumerate(line):
        if ch == '"':
            inq = not inq
        elif ch == ";" and not inq:
            return line[:i]
    return line


SIGNEXT_PARAMS = {}


def parse_func_header(line):
    c = Cursor(line)
    c.expect("define" if line.startswith("define") else "declare")
    while True:
        w = c.peek_word()
        if w and (_attr_words.match(w) or w in RET_ATTRS):
            c.word()
        elif w in ("dereferenceable", "dereferenceable_or_null", "align"):
            c.word()
            if c.accept("("):
                c.integer()
                c.expect(")")
            else:
                c.integer()
        else:
            break
    ret = parse_type_no_func(c)
    c.expect("@")
    name = c.ident()
    c.expect("(")
    params = []
    vararg = False
    if not c.accept(")"):
        while True:
            if c.accept("..."):
                vararg = True
            else:
                t = parse_type(c)
                p0 = c.p if hasattr(c, "p") else c.pos
                skip_param_attrs(c)
                p1 = c.p if hasattr(c, "p") else c.pos
                if "signext" in c.s[p0:p1]:
                    SIGNEXT_PARAMS.setdefault(name, set()).add(len(params))
                pname = None
                if c.accept("%"):
                    pname = c.ident()
                params.append((t, pname))
            if c.accept(")"):
                break
            c.expect(",")
    return name, ret, params, vararg, c.rest()


def parse_type_no_func(c):
    """parse a return type: must not swallow '@name(' -- function types only follow
    a type directly with '(' so a space+@ is safe."""
    return parse_type(c)


def parse_module(text):
    m = Module()
    lines = text.split("\n")
    i = 0
    n = len(lines)
    while i < n:
        raw = lines[i]
        line = strip_comment(raw).rstrip()
        i += 1
        if not line.strip():
            continue
        if line.startswith("source_filename") or line.startswith("target ") or line.startswith("!") \
                or line.startswith("attributes ") or line.startswith("$") or line.startswith("module asm"):
            continue
        if line.startswith("%"):
            # type definition
            c = Cursor(line)
            c.expect("%")
            name = c.ident()
            c.expect("=")
            if not c.accept_word("type"):
                raise ParseError(line)
            m.types[name] = parse_type(c)
            continue
        if line.startswith("@"):
            c = Cursor(line)
            c.expect("@")
            name = c.ident()
            c.expect("=")
            const = False
            tls = False
            external = False
            is_alias = False
            while True:
                w = c.peek_word()
                if w in ("global", "constant"):
                    c.word()
                    const = (w == "constant")
                    break
                if w == "alias" or w == "ifunc":
                    c.word()
                    is_alias = True
                    break
                if w == "thread_local":
                    c.word()
                    tls = True
                    if c.accept("("):
                        c.word()
                        c.expect(")")
                    continue
                if w in ("external", "extern_weak"):
                    external = True
                if w == "addrspace":
                    c.word()
                    c.expect("(")
                    c.integer()
                    c.expect(")")
                    continue
                if w is None:
                    raise ParseError("global: " + line)
                c.word()
            if is_alias:
                t = parse_type(c)
                c.expect(",")
                at = parse_type(c)
                m.aliases[name] = parse_value(c, at)
                continue
            t = parse_type(c)
            init = None
            c.ws()
            if not external and not c.eof() and not c.peek(","):
                init = parse_value(c, t)
            m.globals[name] = Global(name, t, init, const, tls, external)
            continue
        if line.startswith("declare"):
            name, ret, params, vararg, rest = parse_func_header(line)
            m.decls[name] = (ret, params, vararg, rest)
            continue
        if _define_re.match(line):
            name, ret, params, vararg, rest = parse_func_header(line)
            f = Function(name, ret, params, rest)
            f.vararg = vararg
            # unnamed params get sequential numbers
            cnt = 0
            newp = []
            for (t, pn) in params:
                if pn is None:
                    pn = str(cnt)
                    cnt += 1
                elif pn.isdigit():
                    cnt = int(pn) + 1
                newp.append((t, pn))
            f.params = newp
            cur = None
            # first block label: implicit, numbered after params
            implicit = str(cnt)
            while i < n:
                raw = lines[i]
                line = strip_comment(raw).rstrip()
                i += 1
                if not line.strip():
                    continue
                if line == "}":
                    break
                mm = re.match(r'^("(?:[^"\\]|\\.)*"|[-A-Za-z$._0-9]+):', line)
                if mm:
                    cur = mm.group(1).strip('"')
                    f.blocks[cur] = []
                    f.order.append(cur)
                    continue
                if cur is None:
                    cur = implicit
                    f.blocks[cur] = []
                    f.order.append(cur)
                s = line.strip()
                if s.startswith("switch") and not s.endswith("]"):
                    while i < n:
                        nxt = strip_comment(lines[i]).strip()
                        i += 1
                        s += " " + nxt
                        if nxt.endswith("]"):
                            break
                if s.startswith("landingpad") or re.match(r"^%\S+ = landingpad", s):
                    while i < n:
                        nxt = strip_comment(lines[i]).strip()
                        if nxt.startswith("cleanup") or nxt.startswith("catch") or nxt.startswith("filter"):
                            s += " " + nxt
                            i += 1
                        else:
                            break
                if (s.startswith("invoke") or re.match(r"^%\S+ = invoke", s)) and "unwind label" not in s:
                    while i < n:
                        nxt = strip_comment(lines[i]).strip()
                        i += 1
                        s += " " + nxt
                        if "unwind label" in nxt:
                            break
                # strip trailing metadata attachments
                s = re.sub(r"(,\s*![A-Za-z_.0-9]+\s+![0-9]+)+\s*$", "", s)
                s = re.sub(r"\s+#\d+\s*$", "", s)
                f.blocks[cur].append(parse_instr(s))
            m.funcs[name] = f
            continue
        raise ParseError("top-level: " + line)
    return m


# ----------------------------------------------------------------- layout
class Layout:
    """x86-64 SysV data layout: natural alignment, i64:64, pointers 64, x86_fp80 128."""

    def __init__(self, module):
        self.m = module
        self._cache = {}

    def resolve(self, t):
        while isinstance(t, NamedT):
            t = self.m.types[t.name]
        return t

    def size_align(self, t):
        t = self.resolve(t)
        if isinstance(t, IntT):
            b = (t.bits + 7) // 8
            # round up to power of two for alignment
            a = 1
            while a < b:
                a *= 2
            return (a if b > 0 else 1) if False else (self._int_store_size(t.bits), min(a, 8) if t.bits <= 64 else 16)
        if isinstance(t, PtrT) or isinstance(t, FuncT):
            return 8, 8
        if isinstance(t, FloatT):
            if t.bits == 80:
                return 16, 16
            return t.bits // 8, t.bits // 8
        if isinstance(t, ArrT):
            s, a = self.size_align(t.elem)
            return s * t.n, a
        if isinstance(t, VecT):
            s, a = self.size_align(t.elem)
            tot = s * t.n
            al = 1
            while al < tot:
                al *= 2
            return tot, al
        if isinstance(t, StructT):
            key = id(t)
            if key in self._cache:
                return self._cache[key][0], self._cache[key][1]
            off = 0
            maxa = 1
            offs = []
            for f in t.fields:
                s, a = self.size_align(f)
                if t.packed:
                    a = 1
                off = (off + a - 1) // a * a
                offs.append(off)
                off += s
                maxa = max(maxa, a)
            size = (off + maxa - 1) // maxa * maxa
            self._cache[key] = (size, maxa, offs)
            return size, maxa
        if isinstance(t, VoidT):
            return 0, 1
        raise ParseError("size of %r" % (t,))

    @staticmethod
    def _int_store_size(bits):
        b = (bits + 7) // 8
        a = 1
        while a < b:
            a *= 2
        return a if bits not in (24, 40, 48, 56) else b

    def size(self, t):
        return self.size_align(t)[0]

    def field_offset(self, t, i):
        t = self.resolve(t)
        self.size_align(t)
        return self._cache[id(t)][2][i]
