"""Verification framework around the IR symbolic executor.

A *Job* is one kernel translation unit plus the list of *checks* to run on it.
Jobs are independent and are spread over the cores; each job
  1. writes its C++ source, compiles it from $VERIF_REPO's current tree to LLVM IR
     (clang++-14 -O1) and to a native executable linked with native/driver.cpp,
  2. parses the IR and, per check, explores the kernel symbolically, discharging
     `path-condition and not(assertion)` queries with z3,
  3. validates the translator on concrete vectors (engine vs native build),
  4. replays every counterexample natively before it is reported.
"""
import json
import os
import random
import shutil
import subprocess
import sys
import tempfile
import time
import traceback

import z3

HERE = os.path.dirname(os.path.abspath(__file__))
VERIF = os.path.dirname(HERE)
sys.path.insert(0, HERE)
from llir import parse_module  # noqa: E402
import symex  # noqa: E402
from symex import Engine, State, BV, simp, is_conc  # noqa: E402

REPO = os.environ.get("VERIF_REPO", "/repo")
CXX = "clang++-14"
IR_FLAGS = ["-std=c++17", "-O1", "-fno-vectorize", "-fno-slp-vectorize", "-fno-unroll-loops",
            "-S", "-emit-llvm", "-Wno-everything"]
NATIVE_FLAGS = ["-std=c++17", "-O1", "-fno-vectorize", "-fno-slp-vectorize", "-fno-unroll-loops",
                "-Wno-everything", "-fPIC"]
GUARD = "ALLENABY_RLBOX_VERIF"

# Sandbox bases handed to kernels are user-space addresses that cannot collide with the
# engine's application address ranges (globals < 2^32, heap 0x5555..., stack 0x7ffd...).
BASE_LO = 1 << 32
BASE_HI = 0x400000000000


class Inconclusive(Exception):
    pass


def workdir():
    root = os.path.join(VERIF, ".work")
    os.makedirs(root, exist_ok=True)
    return tempfile.mkdtemp(prefix="w%d-" % os.getpid(), dir=root)


def include_flags(extra=()):
    return ["-I", os.path.join(REPO, "code", "include"), "-I", os.path.join(VERIF, "backends"),
            "-I", os.path.join(VERIF, "kernels"), "-I", os.path.join(VERIF, "stubs"), "-D" + GUARD] + list(extra)


# ------------------------------------------------------------------ z3 helpers
def sext(v, bits):
    return z3.SignExt(bits - v.size(), v) if v.size() < bits else v


def zext(v, bits):
    return z3.ZeroExt(bits - v.size(), v) if v.size() < bits else v


def ext(v, signed, bits=128):
    return sext(v, bits) if signed else zext(v, bits)


def mval(m, e):
    return m.eval(e, model_completion=True).as_long()


# ------------------------------------------------------------------ native side
class Native:
    def __init__(self, exe):
        self.exe = exe

    def run_cases(self, cases):
        """cases: list of list-of-lines. Returns list of outcome dicts."""
        if not cases:
            return []
        txt = []
        for c in cases:
            txt.append("case")
            txt.extend(c)
            txt.append("end")
        p = subprocess.run([self.exe], input="\n".join(txt) + "\n", capture_output=True, text=True,
                           timeout=600)
        outs = []
        cur = {"status": None, "ret": None, "msg": None, "log": [], "env": [], "peek": {}, "buf": {},
               "raw": []}
        for ln in p.stdout.split("\n"):
            if not ln:
                continue
            t = ln.split(" ")
            cur["raw"].append(ln)
            if t[0] == "endcase":
                outs.append(cur)
                cur = {"status": None, "ret": None, "msg": None, "log": [], "env": [], "peek": {},
                       "buf": {}, "raw": []}
            elif t[0] == "status":
                cur["status"] = t[1]
                if t[1] == "ret":
                    cur["ret"] = int(t[2], 16)
                else:
                    cur["msg"] = " ".join(t[2:])
            elif t[0] == "envlog":
                cur["log"].append(tuple(int(x, 16) for x in t[1:5]))
            elif t[0] == "envget":
                cur["env"].append((int(t[1], 16), int(t[2], 16)))
            elif t[0] == "envexhausted":
                cur["envexhausted"] = True
            elif t[0] == "peek":
                cur["peek"][int(t[1], 16)] = bytes.fromhex(t[2]) if len(t) > 2 else b""
            elif t[0] == "buf":
                cur["buf"][int(t[1])] = (bytes.fromhex(t[2]) if len(t) > 3 else b"", t[-1])
        return outs


def native_arg(eng, kernel, i, v):
    """Narrow integer arguments must be passed sign-/zero-extended to 32 bits (x86-64 clang ABI)."""
    import llir
    fn = eng.m.funcs[kernel]
    bits = eng.bits_of(fn.params[i][0])
    v &= (1 << bits) - 1
    if bits < 64 and i in llir.SIGNEXT_PARAMS.get(kernel, ()) and (v >> (bits - 1)) & 1:
        v |= ((1 << 64) - 1) ^ ((1 << bits) - 1)
    return v


class Buf:
    """An application-memory buffer handed to a kernel (engine: a heap block; native: @id)."""

    def __init__(self, idx, addr, size, init):
        self.idx = idx
        self.addr = addr
        self.size = size
        self.init = init  # list of z3 byte exprs


# ------------------------------------------------------------------ check context
class Ctx:
    def __init__(self, job, eng, native, check):
        self.job = job
        self.eng = eng
        self.native = native
        self.check = check
        self.name = check["name"]
        self.pre = []
        self.syms = {}
        self.bufs = []
        self.obligations = 0
        self.discharged = 0
        self.violations = []      # confirmed (replayed) counterexamples
        self.unconfirmed = []     # sat but replay disagreed -> engine problem
        self.known_hits = []      # (finding id, description)
        self.inconclusive = []
        self.paths = 0
        self.samples = []
        self.validated = 0
        self.mismatches = []
        self.expected_ok = False
        self.witnesses = 0
        self.known = job.known
        self.base_state = None
        self.sandbox = None   # (base expr, size) for native mapping
        self.extra_maps = []
        self.adversarial = False
        self.t0 = time.time()

    # ---- symbols
    def sym(self, name, bits):
        v = z3.BitVec(name, bits)
        self.syms[name] = v
        return v

    def sandbox_base(self, log2size, name="base", aligned=True):
        """aligned=False: only page alignment (what mmap needs for the native replay); for backends that find the
        sandbox through the registry and need no size alignment"""
        b = self.sym(name, 64)
        size = 1 << log2size
        self.pre += [z3.UGE(b, BV(max(BASE_LO, size), 64)), z3.ULE(b, BV(BASE_HI, 64)),
                     (b & BV((size - 1) if aligned else 0xFFF, 64)) == 0]
        if self.sandbox is None:
            self.sandbox = (b, size)
        else:
            self.extra_maps.append((b, size))
        return b

    def assume(self, *conds):
        self.pre += list(conds)

    def in_region(self, p, base, size):
        return z3.And(z3.UGE(p, base), z3.ULT(p - base, BV(size, 64)))

    # ---- state
    def init_state(self):
        if self.base_state is not None:
            return self.base_state.copy()
        eng = self.eng
        st = State()
        st.mem = eng.initial_memory()
        st.user["log"] = []
        st.user["env"] = []
        st.user["locks"] = []
        for f in eng.m.funcs:
            if f.startswith("__cxx_global_var_init"):
                r = eng.run(f, [], state=st)
                if len(r) != 1 or r[0].status != "ret":
                    raise Inconclusive("global initialiser %s: %s" % (f, [(q.status, q.info) for q in r]))
                st = r[0]
                st.status = "run"
                st.frames = []
                st.ret = None
        st.events = []
        self.base_state = st
        return st.copy()

    def buffer(self, size, init=None, name=None):
        """Allocate an application buffer visible to the kernel. init: list of byte exprs/ints or None
        (fresh symbolic bytes). Must be called before run()."""
        st = self.init_state()
        addr = self.eng.malloc(st, size)
        idx = len(self.bufs)
        nm = name or "buf%d" % idx
        bytes_ = []
        for i in range(size):
            if init is None:
                b = self.sym("%s_%d" % (nm, i), 8)
            else:
                b = init[i] if i < len(init) else BV(0, 8)
                if isinstance(b, int):
                    b = BV(b, 8)
            st.cmem[addr + i] = b
            bytes_.append(b)
        self.base_state = st
        bf = Buf(idx, addr, size, bytes_)
        self.bufs.append(bf)
        return bf

    # ---- exploration
    def run(self, kernel, args, extra_pre=()):
        eng = self.eng
        st = self.init_state()
        st.pc = list(self.pre) + list(extra_pre)
        cargs = []
        for a in args:
            if isinstance(a, Buf):
                cargs.append(BV(a.addr, 64))
            elif isinstance(a, int):
                cargs.append(a)  # placeholder; fixed below
            else:
                cargs.append(a)
        fn = eng.m.funcs.get(kernel)
        if fn is None:
            raise Inconclusive("kernel %s not in IR" % kernel)
        fixed = []
        for (t, pn), a in zip(fn.params, cargs):
            bits = eng.bits_of(t)
            if isinstance(a, int):
                a = BV(a, bits)
            if a.size() != bits:
                raise Inconclusive("kernel %s arg %s: %d bits given, %d expected" % (kernel, pn, a.size(), bits))
            fixed.append(a)
        if len(fixed) != len(fn.params):
            raise Inconclusive("kernel %s: arity" % kernel)
        self._last = (kernel, list(args), fixed)
        paths = eng.run(kernel, fixed, state=st)
        paths = [p for p in paths if p.status != "infeasible"]
        for p in paths:
            p.kernel = kernel
            p.args = list(args)
            p.cargs = fixed
            if p.status in ("unwind", "unsupported"):
                self.inconclusive.append("%s: path ended %s: %s" % (kernel, p.status, p.info))
        self.paths += len(paths)
        return paths

    # ---- obligations
    NO_VERDICT = ("unsupported", "unwind")

    def report(self, p, desc):
        """record a violation found by a check's own oracle - unless the path ended because the ENGINE could not go on
        (unsupported construct, unwinding bound): such a path says nothing about the code and makes the check inconclusive"""
        if p.status in self.NO_VERDICT:
            self.inconclusive.append("%s: path ended %s: %s (no verdict)" % (self.name, p.status, p.info))
        else:
            self.violations.append(desc)

    def require(self, p, cond, what, known=(), judge=None, force=False):
        """Obligation: on path p, cond holds for every value of the symbolic inputs.
        known: [(finding_id, predicate)] - inputs matching a predicate whose id is listed in
        known_findings.txt are excluded and reported as KNOWN-FINDING instead.
        A path the engine could not finish (unsupported / unwind) carries no verdict unless force is set (a check that
        has an argument why exceeding its bound is itself the violation)."""
        self.obligations += 1
        if p.status in self.NO_VERDICT and not force:
            self.inconclusive.append("%s: path ended %s: %s (no verdict on: %s)" % (self.name, p.status, p.info, what[:80]))
            return False
        neg = z3.Not(cond)
        excl = []
        for fid, pred in known:
            if fid in self.known:
                r, m = self.eng.check_sat(p.pc + [neg, pred])
                if r == "sat":
                    d = self._describe(p, m)
                    ok = None
                    if self.native is not None and not self.adversarial:
                        no = self.native.run_cases([self.native_case(p, m)])[0]
                        ok = None if no["status"] == "map-failed" else self.outcomes_agree(self.model_outcome(p, m), no)
                    d["replayed"] = ok
                    if ok is False:
                        d["violated"] = "known finding %s did not reproduce natively" % fid
                        self.unconfirmed.append(d)
                    else:
                        self.known_hits.append((fid, self.known[fid], d))
                elif r == "unknown":
                    self.inconclusive.append("%s/%s: solver unknown (known-finding probe)" % (self.name, what))
                excl.append(z3.Not(pred))
        r, m = self.eng.check_sat(p.pc + [neg] + excl)
        if r == "unsat":
            self.discharged += 1
            return True
        if r == "unknown":
            self.inconclusive.append("%s/%s: solver unknown" % (self.name, what))
            return False
        self._counterexample(p, m, what, judge)
        return False

    def fail(self, p, what, force=False):
        """Obligation that path p must not exist at all."""
        return self.require(p, z3.BoolVal(False), what, force=force)

    def expect(self, paths, **kinds):
        """Vacuity guard: the explored paths must include at least n of each named status."""
        cnt = {}
        for p in paths:
            cnt[p.status] = cnt.get(p.status, 0) + 1
        ok = True
        for k, n in kinds.items():
            if cnt.get(k, 0) < n:
                ok = False
                self.inconclusive.append("%s: expected >=%d '%s' paths, saw %s" % (self.name, n, k, cnt))
        # reachability witness: assert(false) on each path must come back violated
        seen = set()
        for p in paths:
            if p.status in seen:
                continue
            seen.add(p.status)
            r, m = self.eng.check_sat(p.pc)
            if r == "unknown":
                # a witness only has to exist: give the solver more time before calling the harness inconclusive
                old = self.eng.timeout_ms
                self.eng.timeout_ms = old * 5
                try:
                    r, m = self.eng.check_sat(p.pc)
                finally:
                    self.eng.timeout_ms = old
            if r == "sat":
                self.witnesses += 1
                if len(self.samples) < 3:
                    self.samples.append(self._describe(p, m))
            else:
                ok = False
                self.inconclusive.append("%s: witness query not sat on a %s path" % (self.name, p.status))
        self.expected_ok = self.expected_ok or ok
        return ok

    def only(self, paths, *statuses):
        for p in paths:
            if p.status not in statuses:
                if p.status in ("unwind", "unsupported"):
                    continue
                self.obligations += 1
                r, m = self.eng.check_sat(p.pc)
                if r == "sat":
                    self._counterexample(p, m, "unexpected outcome '%s' (%s)" % (p.status, p.info))
                elif r == "unsat":
                    self.discharged += 1

    # ---- describing / replaying
    def _inputs(self, m):
        d = {}
        for k, v in self.syms.items():
            d[k] = mval(m, v)
        return d

    def _describe(self, p, m):
        d = {"kernel": p.kernel, "inputs": {k: hex(v) for k, v in self._inputs(m).items()},
             "outcome": p.status}
        if p.status == "ret" and p.ret is not None and not isinstance(p.ret, list):
            d["ret"] = hex(mval(m, p.ret))
        if p.status == "abort":
            d["msg"] = (p.info or "")[:80]
        lg = p.user.get("log") or []
        if lg:
            d["log"] = [[hex(mval(m, x)) if not isinstance(x, int) else hex(x) for x in e] for e in lg[:8]]
        return d

    def native_case(self, p, m):
        """Build the native driver case reproducing path p under model m."""
        lines = []
        maps = []
        if self.sandbox is not None:
            maps.append((mval(m, self.sandbox[0]), self.sandbox[1]))
        for b, sz in self.extra_maps:
            maps.append((mval(m, b), sz))
        for b, sz in maps:
            lines.append("map %x %x" % (b, sz))

        def mapped(a, n):
            return any(b <= a and a + n <= b + sz for b, sz in maps)
        # initial content of every sandbox byte the path read
        mem0 = self.eng.initial_memory()
        poked = {}
        for ev in p.events:
            if ev[0] in ("ld", "ld-bulk", "ld-strlen", "ld-atomic", "ld-adv") and not isinstance(ev[1], int):
                a = mval(m, ev[1])
                for i in range(ev[2]):
                    if mapped(a + i, 1) and (a + i) not in poked:
                        poked[a + i] = mval(m, z3.Select(mem0, BV(a + i, 64)))
            elif ev[0] == "bulk" and ev[1] in ("memcpy", "memcmp"):
                n = mval(m, ev[4]) if not isinstance(ev[4], int) else ev[4]
                for src in (ev[3],) + ((ev[2],) if ev[1] == "memcmp" else ()):
                    if src is None:
                        continue
                    a = mval(m, src)
                    for i in range(min(n, 64)):
                        if mapped(a + i, 1) and (a + i) not in poked:
                            poked[a + i] = mval(m, z3.Select(mem0, BV(a + i, 64)))
        for a in sorted(poked):
            lines.append("poke %x %02x" % (a, poked[a]))
        for bf in self.bufs:
            lines.append("buf %d %x %s" % (bf.idx, bf.size, "".join("%02x" % mval(m, b) for b in bf.init)))
        envs = p.user.get("env") or []
        if envs:
            lines.append("env " + " ".join("%x" % mval(m, v) for (_, v) in envs))
        args = []
        for i, (a, c) in enumerate(zip(p.args, p.cargs)):
            if isinstance(a, Buf):
                args.append("@%d" % a.idx)
            else:
                args.append("%x" % native_arg(self.eng, p.kernel, i, mval(m, c)))
        lines.append("call %s %s" % (p.kernel, " ".join(args)))
        for bf in self.bufs:
            lines.append("dumpbuf %d" % bf.idx)
        return lines

    def model_outcome(self, p, m):
        o = {"status": p.status if p.status in ("ret", "abort") else p.status, "ret": None, "log": []}
        if p.status == "ret" and p.ret is not None and not isinstance(p.ret, list):
            o["ret"] = mval(m, p.ret)
            o["retbits"] = p.ret.size()
        for e in p.user.get("log") or []:
            o["log"].append(tuple(mval(m, x) if not isinstance(x, int) else x for x in e))
        return o

    def _same_value(self, mv, nv):
        """equal, or both are application-object addresses (whose numeric value differs between the engine's
        address space and the native process: layout-dependent, not comparable bit for bit)"""
        mv &= 0xFFFFFFFFFFFFFFFF
        nv &= 0xFFFFFFFFFFFFFFFF
        if mv == nv:
            return True
        is_code = symex.FUNC_BASE <= mv < symex.FUNC_BASE + 16 * (len(self.eng.faddr) + 1)
        return (self.eng.classify(mv) != "other" or is_code) and 0x550000000000 <= nv < 0x800000000000

    def outcomes_agree(self, mo, no):
        if mo["status"] == "ret":
            if no["status"] == "signal":
                # the native run got past every rlbox check (an abort would have been reported as such) and then
                # faulted on memory the engine models as readable raw memory: the operation did proceed
                return True
            if no["status"] != "ret":
                return False
            if mo["ret"] is not None:
                mask = (1 << mo["retbits"]) - 1
                if (no["ret"] & mask) != (mo["ret"] & mask) and not (mo["retbits"] == 64 and self._same_value(mo["ret"], no["ret"])):
                    return False
        elif mo["status"] == "abort":
            if no["status"] != "abort":
                return False
        else:
            # ub / alloc-fail / uncaught: native shows a signal or anything but a clean pass
            return True
        if self.job.compare_logs:
            nl = no["log"]
            if len(nl) < len(mo["log"]):
                return False
            for me, ne in zip(mo["log"], nl):
                if len(me) != len(ne) or not all(self._same_value(a, b) for a, b in zip(me, ne)):
                    return False
        return True

    def _counterexample(self, p, m, what, judge=None):
        desc = self._describe(p, m)
        desc["violated"] = what
        desc["check"] = self.name
        confirmed = None
        if self.native is not None and not self.adversarial:
            try:
                case = self.native_case(p, m)
                no = self.native.run_cases([case])[0]
                mo = self.model_outcome(p, m)
                desc["native"] = {"status": no["status"], "ret": hex(no["ret"]) if no["ret"] is not None else None,
                                  "msg": no["msg"], "log": [[hex(x) for x in e] for e in no["log"][:8]]}
                desc["case"] = case
                if no["status"] == "map-failed":
                    confirmed = None
                else:
                    confirmed = self.outcomes_agree(mo, no)
                    if confirmed is False and judge is not None and no["status"] == mo["status"] and not judge(no, m):
                        # the native run differs from the model only in values derived from code/stack addresses, and it
                        # violates the same obligation when judged directly (judge = "native outcome satisfies the property")
                        confirmed = True
                        desc["replay_note"] = "native outcome differs in address-dependent values; it violates the same obligation"
            except Exception as e:  # pragma: no cover
                desc["native_error"] = repr(e)
        desc["replayed"] = confirmed
        if confirmed is False:
            self.unconfirmed.append(desc)
        else:
            self.violations.append(desc)

    # ---- translator validation on concrete vectors
    def validate(self, kernel, vectors, mem=None, env=None, base=None):
        """vectors: list of arg lists (ints; Buf allowed). Runs each natively and in the engine with
        all inputs pinned; outcomes must agree. mem: {addr: byte} sandbox content."""
        if self.native is None:
            return
        cases = []
        eouts = []
        for vec in vectors:
            lines = []
            maps = []
            if base is not None:
                maps.append((base, self.sandbox[1] if self.sandbox else (1 << 32)))
                lines.append("map %x %x" % maps[0])
            for a, v in sorted((mem or {}).items()):
                lines.append("poke %x %02x" % (a, v))
            for bf in self.bufs:
                lines.append("buf %d %x %s" % (bf.idx, bf.size, "".join(
                    "%02x" % (simp(b).as_long() if is_conc(simp(b)) else 0) for b in bf.init)))
            if env:
                lines.append("env " + " ".join("%x" % v for v in env))
            lines.append("call %s %s" % (kernel, " ".join(("@%d" % a.idx) if isinstance(a, Buf) else "%x" % native_arg(self.eng, kernel, i, a)
                                                         for i, a in enumerate(vec))))
            cases.append(lines)
            # engine, inputs pinned
            st = self.init_state()
            for a, v in (mem or {}).items():
                st.mem = z3.Store(st.mem, BV(a, 64), BV(v, 8))
            for bf in self.bufs:
                for i, b in enumerate(bf.init):
                    if not is_conc(simp(b)):
                        st.cmem[bf.addr + i] = BV(0, 8)
            st.user["env_preset"] = list(env or [])
            fn = self.eng.m.funcs[kernel]
            cargs = []
            for (t, pn), a in zip(fn.params, vec):
                bits = self.eng.bits_of(t)
                cargs.append(BV(a.addr, 64) if isinstance(a, Buf) else BV(a & ((1 << bits) - 1), bits))
            ps = [q for q in self.eng.run(kernel, cargs, state=st) if q.status != "infeasible"]
            eouts.append(ps)
        nouts = self.native.run_cases(cases)
        for vec, ps, no in zip(vectors, eouts, nouts):
            vs = [("@%d" % a.idx) if isinstance(a, Buf) else hex(a) for a in vec]
            if len(ps) != 1:
                self.mismatches.append({"kernel": kernel, "vec": vs, "why": "engine produced %d paths on concrete input" % len(ps)})
                continue
            p = ps[0]
            m = z3.Model() if False else None
            s = z3.Solver()
            s.check()
            m = s.model()
            mo = {"status": p.status, "ret": None, "log": []}
            if p.status == "ret" and p.ret is not None and not isinstance(p.ret, list):
                mo["ret"] = mval(m, p.ret)
                mo["retbits"] = p.ret.size()
            for e in p.user.get("log") or []:
                mo["log"].append(tuple(mval(m, x) if not isinstance(x, int) else x for x in e))
            ok = no["status"] in ("ret", "abort") and mo["status"] == no["status"] and self.outcomes_agree(mo, no)
            if mo["status"] in ("ub", "alloc-fail", "uncaught") and no["status"] not in ("ret", "abort"):
                ok = True
            if ok:
                self.validated += 1
            else:
                self.mismatches.append({"kernel": kernel, "vec": vs, "engine": {"status": p.status, "info": p.info, "ret": hex(mo["ret"]) if mo["ret"] is not None else None,
                                                                                "log": [[hex(x) for x in e] for e in mo["log"][:6]]},
                                        "native": {"status": no["status"], "ret": hex(no["ret"]) if no["ret"] is not None else None, "msg": no["msg"],
                                                   "log": [[hex(x) for x in e] for e in no["log"][:6]]}})

    def validate_paths(self, paths, k=10):
        """translator validation on explored paths: a model of each sampled path is turned into a native driver case;
        the native outcome (status, return value, env_log sequence) must equal the path's outcome under that model"""
        if self.native is None or self.adversarial:
            return
        cand = [p for p in paths if p.status in ("ret", "abort")]
        if not cand:
            return
        step = max(1, len(cand) // k)
        sample = cand[::step][:k]
        cases, keep = [], []
        for p in sample:
            r, m = self.eng.check_sat(p.pc)
            if r != "sat":
                continue
            try:
                cases.append(self.native_case(p, m))
                keep.append((p, m))
            except Exception:
                continue
        if not cases:
            return
        outs = self.native.run_cases(cases)
        for (p, m), no in zip(keep, outs):
            if no["status"] == "map-failed":
                continue
            mo = self.model_outcome(p, m)
            if no["status"] in ("ret", "abort") and no["status"] == mo["status"] and self.outcomes_agree(mo, no):
                self.validated += 1
            else:
                self.mismatches.append({"kernel": p.kernel, "vec": self._describe(p, m).get("inputs"),
                                        "engine": {"status": mo["status"], "ret": hex(mo["ret"]) if mo.get("ret") is not None else None,
                                                   "log": [[hex(x) for x in e] for e in mo["log"][:8]]},
                                        "native": {"status": no["status"], "ret": hex(no["ret"]) if no["ret"] is not None else None, "msg": no["msg"],
                                                   "log": [[hex(x) for x in e] for e in no["log"][:8]]}})

    def result(self):
        return {"name": self.name, "obligations": self.obligations, "discharged": self.discharged,
                "paths": self.paths, "violations": self.violations, "unconfirmed": self.unconfirmed,
                "known_hits": self.known_hits, "inconclusive": self.inconclusive, "samples": self.samples,
                "validated": self.validated, "mismatches": self.mismatches, "expected_ok": self.expected_ok,
                "witnesses": self.witnesses, "wall_s": round(time.time() - self.t0, 3)}


# ------------------------------------------------------------------ engine stubs common to all kernels
def install_env_stubs(eng):
    def env_u64(e, st, args, ins):
        tag = simp(args[0])
        tagv = tag.as_long() if is_conc(tag) else -1
        preset = st.user.get("env_preset")
        if preset is not None:
            v = BV(preset.pop(0) if preset else 0, 64)
        else:
            v = e.fresh("env%x" % tagv, 64)
        st.user.setdefault("env", []).append((tagv, v))
        return [(st, v)]

    def env_log(e, st, args, ins):
        vals = []
        for a in args:
            a = simp(a)
            vals.append(a.as_long() if is_conc(a) else a)
        st.user.setdefault("log", []).append(tuple(vals))
        return [(st, None)]

    eng.stubs["env_u64"] = env_u64
    eng.stubs["env_log"] = env_log

    def lockstub(nm):
        def f(e, st, args, ins):
            a = simp(args[0])
            # interleaving points: a kernel TU may define verif_at_lock(lock, kind) - "what another thread does just before
            # this thread gets the lock". It runs as a nested call before the acquisition (which is then re-executed).
            # Lock calls made inside the hook itself acquire directly.
            if "verif_at_lock" in e.m.funcs and not nm.endswith("unlock"):
                depth = st.user.get("lock_hook_depth")
                if depth is None:
                    st.user["lock_hook_depth"] = len(st.frames)
                    st.user["pending_call"] = ("verif_at_lock", [a, BV(0 if "rdlock" in nm else 1, 32)])
                    return [(st, None)]
                if len(st.frames) == depth:
                    st.user["lock_hook_depth"] = None      # the hook has returned: this is the re-executed acquisition
            st.user.setdefault("locks", []).append((nm, a))
            st.events.append(("lock", nm, a))
            held = st.user.setdefault("held", {})
            key = a.as_long() if is_conc(a) else str(a)
            if nm.endswith("unlock"):
                held.pop(key, None)
            elif "rdlock" in nm:
                held[key] = "r"
            else:
                held[key] = "w"
            return [(st, BV(0, 32))]
        return f
    def timedlockstub(nm, mode):
        # a bounded wait may give up: one path acquires the lock, the other returns ETIMEDOUT without holding it
        def f(e, st, args, ins):
            a = simp(args[0])
            s2 = st.copy()
            st.user.setdefault("locks", []).append((nm, a))
            st.events.append(("lock", nm, a))
            key = a.as_long() if is_conc(a) else str(a)
            st.user.setdefault("held", {})[key] = mode
            s2.events.append(("lock-timeout", nm, a))
            return [(st, BV(0, 32)), (s2, BV(110, 32))]
        return f
    for nm, mode in (("pthread_rwlock_timedwrlock", "w"), ("pthread_rwlock_clockwrlock", "w"), ("pthread_rwlock_timedrdlock", "r"), ("pthread_rwlock_clockrdlock", "r"),
                     ("pthread_mutex_timedlock", "w"), ("pthread_mutex_clocklock", "w")):
        eng.stubs[nm] = timedlockstub(nm, mode)
    for nm in ("_ZNSt6chrono3_V212system_clock3nowEv", "_ZNSt6chrono3_V212steady_clock3nowEv"):
        eng.stubs.setdefault(nm, lambda e, st, args, ins: [(st, e.fresh("clk", 64))])
    for nm in ("pthread_rwlock_wrlock", "pthread_rwlock_rdlock", "pthread_rwlock_unlock", "pthread_mutex_lock",
               "pthread_mutex_unlock", "pthread_rwlock_tryrdlock", "pthread_rwlock_trywrlock"):
        eng.stubs[nm] = lockstub(nm)

    def throw_stub(e, st, args, ins):
        st.status = "alloc-fail"
        st.info = "libstdc++ throw"
        return [(st, None)]
    for nm in ("_ZSt20__throw_system_errori", "_ZSt20__throw_length_errorPKc", "_ZSt28__throw_bad_array_new_lengthv",
               "_ZSt17__throw_bad_allocv", "_ZSt19__throw_logic_errorPKc", "_ZSt24__throw_out_of_range_fmtPKcz",
               "_ZSt20__throw_out_of_rangePKc"):
        eng.stubs[nm] = throw_stub
    # ---- libstdc++ hashing support (unordered containers keyed by concrete strings / integers)
    def hash_bytes(e, st, args, ins):
        # std::_Hash_bytes(ptr, len, seed): any deterministic function of the bytes models it (FNV-1a here); the bytes
        # must be concrete (symbol names are)
        p, n = simp(args[0]), simp(args[1])
        if not (is_conc(p) and is_conc(n)) or n.as_long() > 4096:
            raise symex.Unsupported("hash of a symbolic byte string")
        h = 0xcbf29ce484222325 ^ (simp(args[2]).as_long() if is_conc(simp(args[2])) else 0)
        for i in range(n.as_long()):
            b = simp(e.load(st, BV(p.as_long() + i, 64), 1, check=False))
            if not is_conc(b):
                raise symex.Unsupported("hash of a symbolic byte string")
            h = ((h ^ b.as_long()) * 0x100000001b3) & 0xFFFFFFFFFFFFFFFF
        return [(st, BV(h, 64))]
    eng.stubs["_ZSt11_Hash_bytesPKvmm"] = hash_bytes
    # std::__detail::_Prime_rehash_policy: the table never grows in the model (all elements chain in the buckets it has);
    # semantics of find/insert/erase do not depend on the bucket count
    eng.stubs["_ZNKSt8__detail20_Prime_rehash_policy14_M_need_rehashEmmm"] = lambda e, st, args, ins: [(st, [BV(0, 8), BV(0, 64)])]
    eng.stubs["_ZNKSt8__detail20_Prime_rehash_policy11_M_next_bktEm"] = lambda e, st, args, ins: [(st, z3.If(simp(args[1]) == 0, BV(1, 64), simp(args[1])))]
    eng.stubs["__cxa_atexit"] = lambda e, st, args, ins: [(st, BV(0, 32))]
    eng.stubs["__cxa_guard_acquire"] = None  # replaced below
    def guard_acquire(e, st, args, ins):
        g = e.load(st, args[0], 1, check=False)
        g = simp(g)
        if is_conc(g):
            return [(st, BV(0 if g.as_long() else 1, 32))]
        return [(st, BV(1, 32))]
    def guard_release(e, st, args, ins):
        e.store(st, args[0], BV(1, 8), check=False)
        return [(st, None)]
    # ---- dynamic loader (dylib backend): handles are opaque ids, symbols resolve to functions of the kernel TU
    def dlopen(e, st, args, ins):
        n = st.user.get("dl_n", 0) + 1
        st.user["dl_n"] = n
        fl = simp(args[1]) if len(args) > 1 else None
        st.events.append(("dlopen", n, fl.as_long() if fl is not None and is_conc(fl) else fl))
        return [(st, BV(0x7E0000000000 + n * 0x100, 64))]

    def dlsym(e, st, args, ins):
        a = simp(args[1])
        name = e.read_cstr(st, a.as_long()) if is_conc(a) else None
        st.events.append(("dlsym", simp(args[0]), name))
        # two libraries exporting the same name: the kernel TU defines <name>__lib<n> for the n-th dlopen'ed library
        h = simp(args[0])
        if name is not None and is_conc(h):
            alt = "%s__lib%d" % (name, (h.as_long() - 0x7E0000000000) // 0x100)
            if alt in e.m.funcs:
                return [(st, BV(e.faddr[alt], 64))]
            # a name that only the application itself (the global scope: RTLD_DEFAULT / RTLD_NEXT pseudo-handles)
            # provides is defined as <name>__app; no opened library exports it
            app = name + "__app"
            if app in e.m.funcs:
                if h.as_long() in (0, 0xFFFFFFFFFFFFFFFF):
                    return [(st, BV(e.faddr[app], 64))]
                return [(st, BV(0, 64))]
        if name in e.m.funcs:
            return [(st, BV(e.faddr[name], 64))]
        return [(st, BV(0, 64))]

    def dlclose(e, st, args, ins):
        st.events.append(("dlclose", simp(args[0])))
        return [(st, BV(0, 32))]
    eng.stubs["dlopen"] = dlopen
    eng.stubs["dlsym"] = dlsym
    eng.stubs["dlclose"] = dlclose
    eng.stubs["dlerror"] = lambda e, st, args, ins: [(st, BV(0, 64))]
    eng.stubs["_ZNSt8ios_base4InitC1Ev"] = lambda e, st, args, ins: [(st, None)]
    eng.stubs["_ZNSt8ios_base4InitD1Ev"] = lambda e, st, args, ins: [(st, None)]

    def str_create(e, st, args, ins):
        cap = simp(e.load(st, args[1], 8, check=False))
        if not is_conc(cap) or cap.as_long() > 4096:
            st.status = "alloc-fail"
            st.info = "std::string capacity"
            return [(st, None)]
        a = e.malloc(st, cap.as_long() + 1)
        st.events.append(("alloc", a, cap.as_long() + 1))
        return [(st, BV(a, 64))]
    eng.stubs["_ZNSt7__cxx1112basic_stringIcSt11char_traitsIcESaIcEE9_M_createERmm"] = str_create
    eng.stubs["__cxa_guard_acquire"] = guard_acquire
    eng.stubs["__cxa_guard_release"] = guard_release
    eng.stubs["__cxa_guard_abort"] = lambda e, st, args, ins: [(st, None)]


# ------------------------------------------------------------------ job execution
class Job:
    def __init__(self, name, source, checks, flags=(), unwind=64, max_paths=20000, compare_logs=True,
                 native=True, timeout_ms=60000, setup=None, extra_sources=()):
        self.name = name
        self.source = source          # C++ text
        self.checks = checks          # list of dicts {name, fn, kw}
        self.flags = list(flags)
        self.unwind = unwind
        self.max_paths = max_paths
        self.compare_logs = compare_logs
        self.want_native = native
        self.timeout_ms = timeout_ms
        self.setup = setup            # fn(eng) installing extra stubs
        self.known = {}
        self.extra_sources = list(extra_sources)


def _prune_failing_kernels(job, wd, stderr, src):
    """A kernel that no longer compiles against a changed tree must not take the whole TU down: blank the
    K-definitions (or kernel-generating macro invocations) that the diagnostics point into, so that the
    remaining kernels are still checked. Returns the list of (file, line) removed, or [] if nothing to do."""
    import re
    kdir = os.path.join(VERIF, "kernels")
    hits = set()
    for ln in stderr.split("\n"):
        m = re.match(r"^(\S+?):(\d+):\d+: (?:error|fatal error|note: in instantiation|note: while substituting|note: in call|note: expanded)", ln)
        if not m:
            continue
        f, line = m.group(1), int(m.group(2))
        f = os.path.abspath(f)
        if f == os.path.abspath(src) or f.startswith(kdir) or f.startswith(wd):
            hits.add((f, line))
    removed = []
    byfile = {}
    for f, line in hits:
        byfile.setdefault(f, set()).add(line)
    for f, lines in byfile.items():
        txt = open(f).read().split("\n")
        changed = False
        for line in sorted(lines):
            i = line - 1
            if i >= len(txt):
                continue
            # walk back to the start of the top-level item
            j = i
            while j > 0 and not (txt[j].startswith("K ") or re.match(r"^[A-Z][A-Z0-9_]*\(", txt[j])):
                j -= 1
            if not (txt[j].startswith("K ") or re.match(r"^[A-Z][A-Z0-9_]*\(", txt[j])):
                continue
            if txt[j].startswith("K "):
                depth, k, seen = 0, j, False
                while k < len(txt):
                    depth += txt[k].count("{") - txt[k].count("}")
                    seen = seen or "{" in txt[k]
                    txt[k] = "// pruned: " + txt[k][:60].replace("*/", "")
                    if seen and depth <= 0:
                        break
                    k += 1
            else:
                # one macro invocation per '(...)' group on the line: drop the whole line
                txt[j] = "// pruned: " + txt[j][:80]
            removed.append((f, j + 1))
            changed = True
        if changed:
            dst = f
            if f.startswith(kdir):
                dst = os.path.join(wd, os.path.basename(f))   # shadow copy found first on the include path
            open(dst, "w").write("\n".join(txt))
    return removed


def _inlined_rlbox_functions(stderr):
    """the kernels are built at -O1, so nearly all rlbox code is inlined into them and leaves no function of its own in the
    IR: the inliner's remarks name every rlbox function (defined under <repo>/code/include) whose body became part of a kernel"""
    import re
    inc = os.path.join(REPO, "code", "include")
    names = set()
    for ln in stderr.split("\n"):
        if "remark:" in ln and ln.startswith(inc):
            mm = re.search(r"remark: '([^']+)' inlined into", ln)
            if mm:
                names.add(mm.group(1))
    if not names:
        return []
    names = sorted(names)
    try:
        p = subprocess.run(["c++filt"], input="\n".join(names) + "\n", capture_output=True, text=True, timeout=60)
        dem = [x for x in p.stdout.split("\n") if x]
        if len(dem) == len(names):
            names = dem
    except Exception:
        pass
    return sorted(set(n[:200] for n in names))


def compile_job(job, wd):
    src = os.path.join(wd, job.name + ".cpp")
    with open(src, "w") as f:
        f.write(job.source)
    ll = os.path.join(wd, job.name + ".ll")
    t0 = time.time()
    job.pruned = []
    for attempt in range(6):
        cmd = [CXX] + IR_FLAGS + ["-I", wd] + include_flags(job.flags) + [src, "-o", ll]
        p = subprocess.run(cmd, capture_output=True, text=True)
        if p.returncode == 0:
            # a second, throw-away compilation only to collect the inliner's remarks for the evidence file (-Rpass makes clang
            # attach debug locations to the IR, so its output is never the IR that is executed)
            try:
                pr = subprocess.run([CXX] + IR_FLAGS + ["-Rpass=inline", "-I", wd] + include_flags(job.flags) + [src, "-o", os.devnull],
                                    capture_output=True, text=True, timeout=300)
                job.inlined = _inlined_rlbox_functions(pr.stderr) if pr.returncode == 0 else []
            except Exception:
                job.inlined = []
            break
        removed = _prune_failing_kernels(job, wd, p.stderr, src) if attempt < 5 else []
        if not removed:
            raise Inconclusive("kernel TU %s does not compile against the current tree:\n%s" % (job.name, p.stderr[-3000:]))
        job.pruned += ["%s: %s" % (job.name, p.stderr[:600])]
    exe = None
    if job.want_native:
        obj = os.path.join(wd, job.name + ".o")
        cmd = [CXX] + NATIVE_FLAGS + ["-I", wd] + include_flags(job.flags) + ["-c", src, "-o", obj]
        p = subprocess.run(cmd, capture_output=True, text=True)
        if p.returncode != 0:
            raise Inconclusive("native build of %s failed:\n%s" % (job.name, p.stderr[-3000:]))
        drv = os.path.join(wd, "driver.o")
        if not os.path.exists(drv):
            p = subprocess.run([CXX, "-std=c++17", "-O1", "-c", os.path.join(VERIF, "native", "driver.cpp"), "-o", drv],
                               capture_output=True, text=True)
            if p.returncode != 0:
                raise Inconclusive("driver build failed: " + p.stderr[-2000:])
        exe = os.path.join(wd, job.name + ".exe")
        p = subprocess.run([CXX, "-rdynamic", obj, drv, "-o", exe, "-ldl", "-lpthread"], capture_output=True, text=True)
        if p.returncode != 0:
            raise Inconclusive("native link of %s failed:\n%s" % (job.name, p.stderr[-3000:]))
    return ll, exe, time.time() - t0


def run_job(job):
    """Executed in a worker process. Returns a plain dict."""
    t0 = time.time()
    res = {"job": job.name, "checks": [], "error": None, "functions": [], "insns": 0, "queries": 0,
           "solver_s": 0.0, "compile_s": 0.0}
    wd = workdir()
    try:
        ll, exe, ct = compile_job(job, wd)
        res["compile_s"] = round(ct, 2)
        res["pruned"] = getattr(job, "pruned", [])
        m = parse_module(open(ll).read())
        outofline = [f for f in m.funcs if "rlbox" in f]
        try:
            pp = subprocess.run(["c++filt"], input="\n".join(outofline) + "\n", capture_output=True, text=True, timeout=60)
            dm = [x for x in pp.stdout.split("\n") if x]
            if len(dm) == len(outofline):
                outofline = [x[:200] for x in dm]
        except Exception:
            pass
        # functions of namespace rlbox whose code is executed symbolically: out of line in the IR, or inlined into a kernel
        res["functions"] = sorted(x for x in set(outofline + list(getattr(job, "inlined", []))) if x.startswith("rlbox::") or " rlbox::" in x[:60])[:1500]
        res["n_functions"] = len(m.funcs)
        native = Native(exe) if exe else None
        for chk in job.checks:
            eng = Engine(m, unwind=chk.get("unwind", job.unwind), max_paths=job.max_paths, timeout_ms=job.timeout_ms)
            eng.recheck_budget = min(2, getattr(job, "recheck", 0))      # per kernel check; the job total is capped below
            job.recheck = max(0, getattr(job, "recheck", 0) - eng.recheck_budget)
            install_env_stubs(eng)
            if job.setup:
                job.setup(eng)
            ctx = Ctx(job, eng, native, chk)
            try:
                chk["fn"](ctx, **chk.get("kw", {}))
                if not ctx.expected_ok and not ctx.inconclusive:
                    ctx.inconclusive.append("%s: check did not establish its expected outcomes" % ctx.name)
            except Inconclusive as e:
                if chk.get("optional") and "not in IR" in str(e):
                    # the expression is rejected at compile time on this tree: nothing to execute, nothing can go wrong
                    ctx.obligations += 1
                    ctx.discharged += 1
                    ctx.expected_ok = True
                    ctx.samples.append({"kernel": chk["name"], "outcome": "rejected at compile time"})
                else:
                    ctx.inconclusive.append("%s: %s" % (ctx.name, e))
            except symex.Unsupported as e:
                ctx.inconclusive.append("%s: unsupported: %s" % (ctx.name, e))
            except Exception:
                ctx.inconclusive.append("%s: internal error: %s" % (ctx.name, traceback.format_exc()[-1500:]))
            rs = getattr(eng, "recheck_stats", None)
            if rs:
                for kk, vv in rs.items():
                    res.setdefault("cvc5", {"agree": 0, "skipped": 0, "disagree": 0})[kk] += vv
                if rs["disagree"]:
                    ctx.inconclusive.append("%s: cvc5 disagrees with z3 on %d verification condition(s)" % (ctx.name, rs["disagree"]))
            res["checks"].append(ctx.result())
            res["insns"] += eng.insn_count
            res["queries"] += eng.queries
            res["solver_s"] += eng.solver_time
            res["abstracted"] = res.get("abstracted", 0) + getattr(eng, "abstracted", 0)
    except Inconclusive as e:
        res["error"] = str(e)
    except Exception:
        res["error"] = "internal error: " + traceback.format_exc()[-3000:]
    finally:
        shutil.rmtree(wd, ignore_errors=True)
    res["wall_s"] = round(time.time() - t0, 2)
    return res
